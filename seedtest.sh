#!/bin/sh
# usage: seedtest.sh <prop> <dir-with-patch.diff> [tier]  — applies the change to /repo, runs the check, reverts.
prop=$1; dir=$2; tier=${3:-quick}
cd /repo || exit 2
if [ -n "$(git status --porcelain --untracked-files=no)" ]; then echo "repo dirty"; exit 2; fi
git apply "$dir/patch.diff" || { echo "patch does not apply"; exit 2; }
cd /verif && ./check "$prop" "$tier" > /tmp/seed_out.txt 2>&1; rc=$?
cd /repo && git checkout -- . 
echo "exit=$rc"; grep -E "^VIOLATION|^KNOWN|^PROOF-STALE|quick:|thorough:" /tmp/seed_out.txt | cut -c1-260 | head -8
