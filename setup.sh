#!/bin/sh
# Build the verifier from the vendored module (offline).
cd "$(dirname "$0")" || exit 2
export GOPROXY=off GOSUMDB=off GOTOOLCHAIN=local
mkdir -p bin .cache evidence replay
(cd govc && GOFLAGS=-mod=vendor go build -o ../bin/govc .) || exit 2
echo "govc built: $(ls -la bin/govc)"
# check the Lean/Mathlib lemmas once (first load of Mathlib is slow; later runs hit the content-hash stamp)
GOFLAGS=-mod=mod bin/govc lean comb graph | tail -6
