#!/usr/bin/env python3
"""Regenerates MANIFEST.json from props.json (claimed properties) and na.json (not applicable)."""
import json, subprocess
props = json.load(open('/verif/props.json'))
na = json.load(open('/verif/na.json'))
hooks_commits = subprocess.run(['git','-C','/repo','log','--format=%H %s'],capture_output=True,text=True).stdout.splitlines()
src = [l.split()[0] for l in hooks_commits if ' verif hook:' in ' '+l.split(' ',1)[1] or l.split(' ',1)[1].startswith('verif hook')]
checks = []
for pid in sorted(props):
    p = props[pid]
    if p.get('claimed', True) is False:
        continue
    checks.append({
        "property_id": pid,
        "quick_cmd": f"./check {pid} quick",
        "thorough_cmd": f"./check {pid} thorough",
        "evidence_file": f"/verif/evidence/{pid}.json",
        "replay_cmd_template": "cat {path}  # the file names the failed obligation, the solver output, the failing input found on the real code and the exact `go test -overlay` command that reproduces it",
        "engine": "govc",
        "level_claimed": {"category": p.get('category', 'proof'), "text": p.get('level_text', p.get('decides','')), "design_ref": p.get('design_ref', 'DESIGN.md section 4')},
        "level_note": p.get('level_note', ''),
        "technique": p.get('technique', 'contract-based deductive verification: weakest-precondition VCs generated from go/ssa of the real code, contracts in guarded comment files, discharged by z3/cvc5'),
    })
m = {
 "version": 1,
 "setup_cmd": "./setup.sh",
 "hooks": {
   "guard": "verif",
   "enable": "go build -tags verif ./... (the checks load /repo with build tag verif; the hook files are comment-only //@ contract files zz_contracts_verif.go)",
   "baseline_off_cmd": "cd /repo && go test -vet=off -count=1 -timeout 25m ./...",
   "source_commits": src,
   "add_only": True,
 },
 "engines": [{"name": "govc", "path": "/verif/govc", "serves_properties": [c['property_id'] for c in checks],
              "kind_free_text": "self-built deductive verifier for Go: VC generation over go/ssa naive form of /repo, Gobra-style //@ contracts, obligations discharged by z3 5.1 / z3 4.8 / cvc5 1.0; run-time contract checking (overlay tests) for replay and labelled bounded stand-ins"}],
 "checks": checks,
 "not_applicable": na,
 "notes": "See DESIGN.md. Every claimed check is level 'proof' for the clauses named in its level text; functions covered only by a bounded stand-in are labelled bounded in the evidence and are not counted as proved.",
}
json.dump(m, open('/verif/MANIFEST.json','w'), indent=1)
print(len(checks), 'checks,', len(na), 'not applicable')
