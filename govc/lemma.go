package main

// Lemmas: proved as obligations (by smt / by induction on a measure), used as
// quantified assumptions in the functions that list them in `opt lemmas=`.

import (
	"fmt"
	"go/types"
	"strings"
)

func (g *Gen) findLemma(sf *SpecFile, name string) (*Lemma, *SpecFile) {
	if sf != nil {
		for _, l := range sf.Lemmas {
			if l.Name == name {
				return l, sf
			}
		}
	}
	if g.extern != nil {
		for _, l := range g.extern.Lemmas {
			if l.Name == name {
				return l, g.extern
			}
		}
	}
	return nil, nil
}

type lemmaInst struct {
	bound []*Term
	env   *Env
}

// instantiate binds the lemma parameters to fresh variables with the given suffix.
func (g *Gen) lemmaVars(l *Lemma, sf *SpecFile, pkg *types.Package, suffix string, v *FnVC) lemmaInst {
	env := &Env{g: g, pkg: pkg, sf: sf, vars: map[string]Val{}, v: nil}
	var bound []*Term
	for _, p := range l.Params {
		pt := g.parseType(p.Type, pkg)
		s := sortOf(pt)
		if s == SSlice {
			et := elemTypeOf(pt)
			a := Var(p.Name+"_arr"+suffix, ArrSort(sortOf(et)))
			sl := Var(p.Name+suffix, SSlice)
			bound = append(bound, a, sl)
			env.vars[p.Name] = Val{T: sl, Typ: pt, Arr: a}
		} else {
			x := Var(p.Name+suffix, s)
			bound = append(bound, x)
			env.vars[p.Name] = Val{T: x, Typ: pt}
		}
	}
	env.old = env
	return lemmaInst{bound, env}
}

func (g *Gen) lemmaFormula(l *Lemma, inst lemmaInst) (req, ens *Term) {
	var rs, es []*Term
	for _, p := range l.Params {
		pt := g.parseType(p.Type, inst.env.pkg)
		if sortOf(pt) == SSlice {
			rs = append(rs, App("valid-slice", SBool, inst.env.vars[p.Name].T))
		}
	}
	for _, c := range l.Requires {
		rs = append(rs, inst.env.bool(c.E))
	}
	for _, c := range l.Ensures {
		es = append(es, inst.env.bool(c.E))
	}
	return And(rs...), And(es...)
}

// assumeLemma adds the universally quantified lemma as an assumption.
func (v *FnVC) assumeLemma(name string) {
	l, sf := v.g.findLemma(v.sf, name)
	if l == nil {
		specErr("unknown lemma %q", name)
	}
	freshCounter++
	inst := v.g.lemmaVars(l, sf, v.pkg, fmt.Sprintf("?L%d", freshCounter), v)
	req, ens := v.g.lemmaFormula(l, inst)
	var pats [][]*Term
	if len(l.Pats) > 0 {
		var p []*Term
		for _, pe := range l.Pats {
			p = append(p, inst.env.eval(pe).T)
		}
		pats = append(pats, p)
	}
	v.assume(True, Forall(inst.bound, Implies(req, ens), pats...), "lemma:"+name)
	if strings.HasPrefix(l.By, "axiom") {
		v.g.noteAssumption("axiom " + name + " (" + l.By + ")")
	}
	if strings.HasPrefix(l.By, "lean") {
		v.g.noteAssumption("lemma " + name + " proved in Lean (" + l.By + "), checked by the lean step of this run")
	}
}

// GenLemma produces the proof obligation(s) of a lemma.
func (g *Gen) GenLemma(l *Lemma, sf *SpecFile, pkg *types.Package) (vc *FnVC, err error) {
	v := &FnVC{g: g, spec: &FuncSpec{Opts: map[string]string{}}, sf: sf, declared: map[string]string{}, counters: map[string]int{},
		heapSorts: map[string]string{}, usedSpecs: map[string]bool{}, pkg: pkg, name: "lemma:" + l.Name}
	defer func() {
		if r := recover(); r != nil {
			switch e := r.(type) {
			case Unsupported:
				err = e
			case SpecError:
				err = e
			default:
				panic(r)
			}
			vc = v
		}
	}()
	v.curGuard = True
	by := strings.Fields(l.By)
	if len(by) == 0 {
		by = []string{"smt"}
	}
	if by[0] == "axiom" || by[0] == "lean" {
		return v, nil
	}
	inst := g.lemmaVars(l, sf, pkg, "", v)
	for _, b := range inst.bound {
		v.declare(b.Name, b.Sort)
	}
	req, ens := g.lemmaFormula(l, inst)
	v.assume(True, req, "requires")
	// lemmas this lemma may use: "by smt using a,b" / "by induction m using a"
	for i, w := range by {
		if w == "using" {
			for _, n := range strings.Split(strings.Join(by[i+1:], ""), ",") {
				v.assumeLemma(strings.TrimSpace(n))
			}
			by = by[:i]
			break
		}
	}
	if by[0] == "induction" {
		if len(by) < 2 {
			specErr("%s: 'by induction <measure>'", l.Line)
		}
		me, perr := ParseExpr(strings.Join(by[1:], " "))
		if perr != nil {
			specErr("%s: %v", l.Line, perr)
		}
		m0 := inst.env.int(me)
		freshCounter++
		hyp := g.lemmaVars(l, sf, pkg, fmt.Sprintf("?I%d", freshCounter), v)
		hreq, hens := g.lemmaFormula(l, hyp)
		m1 := hyp.env.int(me)
		var pats [][]*Term
		if len(l.Pats) > 0 {
			var p []*Term
			for _, pe := range l.Pats {
				p = append(p, hyp.env.eval(pe).T)
			}
			pats = append(pats, p)
		}
		v.assume(True, Forall(hyp.bound, Implies(And(Le(IntLit(0), m1), Lt(m1, m0), hreq), hens), pats...), "induction-hypothesis")
	}
	for i, c := range l.Ensures {
		_ = ens
		v.oblige("lemma", fmt.Sprintf("ensures#%d", i+1), True, inst.env.bool(c.E), l.Line, c.Text)
	}
	return v, nil
}
