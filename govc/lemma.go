package main

// Lemmas: proved as obligations (by smt / by induction on a measure), used as
// quantified assumptions in the functions that list them in `opt lemmas=`.

import (
	"fmt"
	"go/types"
	"strings"
)

func (g *Gen) findLemma(sf *SpecFile, name string) (*Lemma, *SpecFile) {
	if sf != nil {
		for _, l := range sf.Lemmas {
			if l.Name == name {
				return l, sf
			}
		}
	}
	if g.extern != nil {
		for _, l := range g.extern.Lemmas {
			if l.Name == name {
				return l, g.extern
			}
		}
	}
	return nil, nil
}

type lemmaInst struct {
	bound []*Term
	env   *Env
}

// instantiate binds the lemma parameters to fresh variables with the given suffix.
func (g *Gen) lemmaVars(l *Lemma, sf *SpecFile, pkg *types.Package, suffix string, v *FnVC) lemmaInst {
	env := &Env{g: g, pkg: pkg, sf: sf, vars: map[string]Val{}, v: v}
	if v != nil {
		env.st = v.entry
	}
	var bound []*Term
	for _, p := range l.Params {
		pt := g.parseType(p.Type, pkg)
		s := sortOf(pt)
		if s == SSlice {
			et := elemTypeOf(pt)
			a := Var(p.Name+"_arr"+suffix, ArrSort(sortOf(et)))
			sl := Var(p.Name+suffix, SSlice)
			bound = append(bound, a, sl)
			env.vars[p.Name] = Val{T: sl, Typ: pt, Arr: a}
		} else {
			x := Var(p.Name+suffix, s)
			bound = append(bound, x)
			env.vars[p.Name] = Val{T: x, Typ: pt}
		}
	}
	env.old = env
	return lemmaInst{bound, env}
}

func (g *Gen) lemmaFormula(l *Lemma, inst lemmaInst) (req, ens *Term) {
	var rs, es []*Term
	for _, p := range l.Params {
		pt := g.parseType(p.Type, inst.env.pkg)
		if sortOf(pt) == SSlice {
			rs = append(rs, App("valid-slice", SBool, inst.env.vars[p.Name].T))
		}
	}
	for _, c := range l.Requires {
		rs = append(rs, inst.env.bool(c.E))
	}
	for _, c := range l.Ensures {
		es = append(es, inst.env.bool(c.E))
	}
	return And(rs...), And(es...)
}

// assumeLemma adds the universally quantified lemma as an assumption.
func (v *FnVC) assumeLemma(name string) {
	l, sf := v.g.findLemma(v.sf, name)
	if l == nil {
		specErr("unknown lemma %q", name)
	}
	freshCounter++
	inst := v.g.lemmaVars(l, sf, v.pkg, fmt.Sprintf("?L%d", freshCounter), v)
	req, ens := v.g.lemmaFormula(l, inst)
	var pats [][]*Term
	if len(l.Pats) > 0 {
		var p []*Term
		for _, pe := range l.Pats {
			p = append(p, inst.env.eval(pe).T)
		}
		pats = append(pats, p)
	}
	if len(inst.bound) == 0 {
		v.assume(True, Implies(req, ens), "lemma:"+name)
	} else {
		v.assume(True, Forall(inst.bound, Implies(req, ens), pats...), "lemma:"+name)
	}
	if strings.HasPrefix(l.By, "axiom") {
		v.g.noteAssumption("axiom " + name + " (" + l.By + ")")
	}
	if strings.HasPrefix(l.By, "lean") {
		v.g.noteAssumption("lemma " + name + " proved in Lean (" + l.By + "), checked by the lean step of this run")
	}
}

// GenLemma produces the proof obligation(s) of a lemma.
func (g *Gen) GenLemma(l *Lemma, sf *SpecFile, pkg *types.Package) (vc *FnVC, err error) {
	lopts := map[string]string{}
	for k, x := range l.Opts {
		lopts[k] = x
	}
	v := &FnVC{g: g, spec: &FuncSpec{Opts: lopts}, sf: sf, declared: map[string]string{}, counters: map[string]int{},
		heapSorts: map[string]string{}, usedSpecs: map[string]bool{}, pkg: pkg, name: "lemma:" + l.Name, refHeaps: map[string]bool{}}
	defer func() {
		if r := recover(); r != nil {
			switch e := r.(type) {
			case Unsupported:
				err = e
			case SpecError:
				err = e
			default:
				panic(r)
			}
			vc = v
		}
	}()
	v.curGuard = True
	resetTermTables()
	v.entry = &State{vars: map[string]*Term{}, heaps: map[string]*Term{}}
	v.entry.alloc = v.declare("alloc@0", SInt)
	v.assume(True, Ge(v.entry.alloc, IntLit(1)), "alloc")
	v.paramConsts = map[string]bool{}
	by := strings.Fields(l.By)
	if len(by) == 0 {
		by = []string{"smt"}
	}
	if by[0] == "axiom" || by[0] == "lean" {
		return v, nil
	}
	inst := g.lemmaVars(l, sf, pkg, "", v)
	for _, b := range inst.bound {
		v.declare(b.Name, b.Sort)
	}
	req, ens := g.lemmaFormula(l, inst)
	v.assume(True, req, "requires")
	// lemmas this lemma may use: "by smt using a,b" / "by induction m using a"
	for i, w := range by {
		if w == "using" {
			for _, n := range strings.Split(strings.Join(by[i+1:], ""), ",") {
				v.assumeLemma(strings.TrimSpace(n))
			}
			by = by[:i]
			break
		}
	}
	if by[0] == "induction" {
		if len(by) < 2 {
			specErr("%s: 'by induction <measure>'", l.Line)
		}
		me, perr := ParseExpr(strings.Join(by[1:], " "))
		if perr != nil {
			specErr("%s: %v", l.Line, perr)
		}
		m0 := inst.env.int(me)
		freshCounter++
		hyp := g.lemmaVars(l, sf, pkg, fmt.Sprintf("?I%d", freshCounter), v)
		hreq, hens := g.lemmaFormula(l, hyp)
		m1 := hyp.env.int(me)
		var pats [][]*Term
		if len(l.Pats) > 0 {
			var p []*Term
			for _, pe := range l.Pats {
				p = append(p, hyp.env.eval(pe).T)
			}
			pats = append(pats, p)
		}
		v.assume(True, Forall(hyp.bound, Implies(And(Le(IntLit(0), m1), Lt(m1, m0), hreq), hens), pats...), "induction-hypothesis")
	}
	for _, u := range l.Uses {
		v.useLemma(inst.env, u, True)
	}
	for i, c := range l.Ensures {
		_ = ens
		if c.E.Kind == "quant" && c.E.Op == "forall!" {
			// one obligation per instance, so that a failing table row is named
			lo, ok1 := inst.env.int(c.E.Lo).IntVal()
			hi, ok2 := inst.env.int(c.E.Hi).IntVal()
			if ok1 && ok2 {
				var deferred []*Term
				for k := lo.Int64(); k < hi.Int64(); k++ {
					n := inst.env.child()
					n.vars[c.E.Var] = intVal(IntLit(k))
					goal := n.bool(c.E.Args[0])
					o := v.oblige("lemma", fmt.Sprintf("ensures#%d[%s=%d]", i+1, c.E.Var, k), True, goal, l.Line, c.Text)
					// instances are independent: do not let one failing row hide behind another
					v.assumes = v.assumes[:len(v.assumes)-1]
					_ = o
					deferred = append(deferred, goal)
				}
				for _, g := range deferred {
					v.assume(True, g, "checked")
				}
				continue
			}
		}
		v.oblige("lemma", fmt.Sprintf("ensures#%d", i+1), True, inst.env.bool(c.E), l.Line, c.Text)
	}
	return v, nil
}

// useLemma adds one ground instance of a lemma (explicit instantiation hint).
func (v *FnVC) useLemma(env *Env, c *Clause, guard *Term) {
	if c.E.Kind == "quant" && c.E.Op == "forall!" {
		lo, ok1 := env.int(c.E.Lo).IntVal()
		hi, ok2 := env.int(c.E.Hi).IntVal()
		if !ok1 || !ok2 {
			specErr("%s: forall! in use needs literal bounds", c.Line)
		}
		for k := lo.Int64(); k < hi.Int64(); k++ {
			n := env.child()
			n.vars[c.E.Var] = intVal(IntLit(k))
			v.useLemma(n, &Clause{Kind: "use", E: c.E.Args[0], Line: c.Line, Text: c.Text}, guard)
		}
		return
	}
	if c.E.Kind != "call" {
		specErr("%s: use needs lemma(args...)", c.Line)
	}
	l, sf := v.g.findLemma(v.sf, c.E.Name)
	if l == nil {
		specErr("%s: unknown lemma %q", c.Line, c.E.Name)
	}
	if len(l.Params) != len(c.E.Args) {
		specErr("%s: lemma %s takes %d arguments", c.Line, l.Name, len(l.Params))
	}
	le := &Env{g: v.g, pkg: v.pkg, sf: sf, vars: map[string]Val{}, v: v, st: env.st}
	le.old = le
	for i, p := range l.Params {
		a := env.eval(c.E.Args[i])
		pt := v.g.parseType(p.Type, v.pkg)
		if a.T == nil || a.T.Sort != sortOf(pt) {
			specErr("%s: argument %d of %s has the wrong sort", c.Line, i+1, l.Name)
		}
		a.Typ = pt
		le.vars[p.Name] = a
	}
	var rs, es []*Term
	for _, r := range l.Requires {
		rs = append(rs, le.bool(r.E))
	}
	for _, e := range l.Ensures {
		es = append(es, le.bool(e.E))
	}
	v.assume(guard, Implies(And(rs...), And(es...)), "use:"+l.Name)
	if strings.HasPrefix(l.By, "lean") {
		v.g.noteAssumption("lemma " + l.Name + " proved in Lean (" + l.By + "), checked by the lean step of this run")
	}
	if strings.HasPrefix(l.By, "axiom") {
		v.g.noteAssumption("axiom " + l.Name)
	}
}
