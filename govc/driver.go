package main

// Loading, contract lookup, per-function VC generation entry point, SMT
// emission.

import (
	"fmt"
	"go/ast"
	"go/constant"
	"go/token"
	"go/types"
	"math/big"
	"os"
	"path/filepath"
	"sort"
	"strconv"
	"strings"
	"sync"

	"golang.org/x/tools/go/packages"
	"golang.org/x/tools/go/ssa"
	"golang.org/x/tools/go/ssa/ssautil"
)

const modPath = "github.com/Tom-Johnston/mamba"

type Gen struct {
	fset        *token.FileSet
	prog        *ssa.Program
	pkgs        map[string]*packages.Package
	spkgs       map[string]*ssa.Package
	specFiles   map[string]*SpecFile // by package path
	extern      *SpecFile
	globalSpecs map[string]*SpecFunc
	ghostFields map[string]types.Type
	typeCache   map[string]types.Type
	anyPkg      *types.Package
	needPow2    bool
	needBitFns  bool
	assumptions map[string]bool
	declFuns    map[string]string
	repoDir     string
	specOwner   map[*FuncSpec]*SpecFile
	lemmaOK     map[string]bool
	wrapSites   map[*ssa.Function]map[int]bool // overflow sites modelled as wrapping (see check.go)
}

func LoadRepo(repoDir, externPath string) (*Gen, error) {
	g := &Gen{pkgs: map[string]*packages.Package{}, spkgs: map[string]*ssa.Package{}, specFiles: map[string]*SpecFile{},
		globalSpecs: map[string]*SpecFunc{}, ghostFields: map[string]types.Type{}, typeCache: map[string]types.Type{},
		assumptions: map[string]bool{}, declFuns: map[string]string{}, repoDir: repoDir, specOwner: map[*FuncSpec]*SpecFile{}, lemmaOK: map[string]bool{}}
	cfg := &packages.Config{Mode: packages.LoadAllSyntax, Dir: repoDir, BuildFlags: []string{"-tags=verif"},
		Env: append(os.Environ(), "GOFLAGS=-mod=mod", "GOPROXY=off", "GOSUMDB=off", "GOTOOLCHAIN=local")}
	pkgs, err := packages.Load(cfg, "./...")
	if err != nil {
		return nil, err
	}
	if n := packages.PrintErrors(pkgs); n > 0 {
		return nil, fmt.Errorf("%d package errors", n)
	}
	prog, spkgs := ssautil.AllPackages(pkgs, ssa.NaiveForm|ssa.GlobalDebug)
	prog.Build()
	g.prog = prog
	g.fset = prog.Fset
	for i, p := range pkgs {
		g.pkgs[p.PkgPath] = p
		g.spkgs[p.PkgPath] = spkgs[i]
		if g.anyPkg == nil {
			g.anyPkg = p.Types
		}
	}
	// library packages too
	for _, sp := range prog.AllPackages() {
		if _, ok := g.spkgs[sp.Pkg.Path()]; !ok {
			g.spkgs[sp.Pkg.Path()] = sp
		}
	}
	// contract files
	for path, p := range g.pkgs {
		dir := filepath.Join(repoDir, strings.TrimPrefix(strings.TrimPrefix(path, modPath), "/"))
		f := filepath.Join(dir, "zz_contracts_verif.go")
		if _, err := os.Stat(f); err == nil {
			sf, err := LoadSpecFile(f, path)
			if err != nil {
				return nil, err
			}
			g.specFiles[path] = sf
			for _, fs := range sf.Funcs {
				g.specOwner[fs] = sf
			}
		}
		_ = p
	}
	if externPath != "" {
		sf, err := LoadSpecFile(externPath, "")
		if err != nil {
			return nil, err
		}
		g.extern = sf
		for k, f := range sf.Specs {
			g.globalSpecs[k] = f
		}
		for _, fs := range sf.Funcs {
			g.specOwner[fs] = sf
		}
	}
	return g, nil
}

func (g *Gen) noteAssumption(s string) { g.assumptions[s] = true }

func (g *Gen) specFileOf(spec *FuncSpec) *SpecFile { return g.specOwner[spec] }

func (g *Gen) isAssumed(spec *FuncSpec) bool { return spec.Opts["assumed"] == "true" }

func funcKey(fn *ssa.Function) string {
	if recv := fn.Signature.Recv(); recv != nil {
		t := recv.Type()
		if p, ok := t.(*types.Pointer); ok {
			return "(*" + structName(p.Elem()) + ")." + fn.Name()
		}
		return "(" + structName(t) + ")." + fn.Name()
	}
	return fn.Name()
}

func (g *Gen) specFor(fn *ssa.Function) *FuncSpec {
	if fn.Pkg == nil {
		return nil
	}
	path := fn.Pkg.Pkg.Path()
	if sf, ok := g.specFiles[path]; ok {
		if s, ok := sf.Funcs[funcKey(fn)]; ok {
			return s
		}
	}
	if g.extern != nil {
		key := fn.Pkg.Pkg.Name() + "." + funcKey(fn)
		if s, ok := g.extern.Funcs[key]; ok {
			return s
		}
	}
	return nil
}

func (g *Gen) calleeSpec(v *FnVC, c ssa.CallCommon) (*ssa.Function, *FuncSpec) {
	callee := c.StaticCallee()
	if callee == nil {
		return nil, nil
	}
	// library calls may have contracts keyed by a constant string operand,
	// e.g. fmt.Fprintf["%d\t"]
	if g.extern != nil && callee.Pkg != nil {
		if strs, _ := callConstOperands(c); len(strs) > 0 {
			key := callee.Pkg.Pkg.Name() + "." + funcKey(callee) + "[" + strconv.Quote(strs[0]) + "]"
			if s, ok := g.extern.Funcs[key]; ok {
				return callee, s
			}
		}
	}
	return callee, g.specFor(callee)
}

// callConstOperands returns the constant string operands of a call (direct or
// boxed in the variadic ...interface{} array) and the integer-valued variadic
// operands by position.
func callConstOperands(c ssa.CallCommon) ([]string, map[int]ssa.Value) {
	var strs []string
	vals := map[int]ssa.Value{}
	for _, a := range c.Args {
		if k, ok := a.(*ssa.Const); ok && k.Value != nil && k.Value.Kind() == constant.String {
			strs = append(strs, constant.StringVal(k.Value))
		}
	}
	if len(c.Args) > 0 {
		if al, _, ok := varargsArray(c.Args[len(c.Args)-1]); ok {
			for _, r := range *al.Referrers() {
				ia, ok := r.(*ssa.IndexAddr)
				if !ok {
					continue
				}
				idx, ok := ia.Index.(*ssa.Const)
				if !ok {
					continue
				}
				for _, r2 := range *ia.Referrers() {
					st, ok := r2.(*ssa.Store)
					if !ok {
						continue
					}
					mi, ok := st.Val.(*ssa.MakeInterface)
					if !ok {
						continue
					}
					if k, ok := mi.X.(*ssa.Const); ok && k.Value != nil && k.Value.Kind() == constant.String {
						strs = append(strs, constant.StringVal(k.Value))
					} else {
						vals[int(idx.Int64())] = mi.X
					}
				}
			}
		}
	}
	return strs, vals
}

func (g *Gen) lookupSpecByKey(v *FnVC, key string) *FuncSpec {
	if i := strings.Index(key, "."); i > 0 {
		short := key[i+1:]
		if v.sf != nil {
			if s, ok := v.sf.Funcs[short]; ok {
				return s
			}
		}
		for _, sf := range g.specFiles {
			if s, ok := sf.Funcs[short]; ok && s.Extern {
				return s
			}
		}
	}
	if v.sf != nil {
		if s, ok := v.sf.Funcs[key]; ok {
			return s
		}
	}
	for _, sf := range g.specFiles {
		if s, ok := sf.Funcs[key]; ok {
			return s
		}
	}
	if g.extern != nil {
		if s, ok := g.extern.Funcs[key]; ok {
			return s
		}
	}
	return nil
}

func (g *Gen) allHeaps(v *FnVC) map[string]bool {
	m := map[string]bool{}
	for h := range v.heapSorts {
		m[h] = true
	}
	return m
}

// calleeFootprint: heaps a contract-specified callee may write / allocate in.
func (g *Gen) calleeFootprint(v *FnVC, callee *ssa.Function, spec *FuncSpec, c ssa.CallCommon) (map[string]string, bool) {
	out := map[string]string{}
	allocs := false
	if spec.ModAll {
		for h := range v.heapSorts {
			out[h] = "write"
		}
		return out, true
	}
	reach := func(t types.Type) {
		if t == nil {
			return
		}
		for _, h := range refHeaps(t) {
			if _, ok := v.heapSorts[h.name]; !ok {
				v.heapSorts[h.name] = h.sort
			}
			if out[h.name] == "" {
				out[h.name] = "alloc"
			}
		}
	}
	if len(spec.Modifies) > 0 {
		// evaluate the modifies list on dummy arguments to learn the heap kinds
		env := &Env{v: v, g: g, sf: g.specFileOf(spec), vars: map[string]Val{}, st: v.entry}
		env.old = env
		bind := func(name string, t types.Type) {
			s := sortOf(t)
			if s == "STRUCT" || s == "TUPLE" {
				return
			}
			env.vars[name] = Val{T: Var("dummy_"+name, s), Typ: t}
		}
		if spec.Extern && len(spec.Params) > 0 {
			for i, p := range spec.Params {
				if i < len(c.Args) {
					bind(p.Name, c.Args[i].Type())
				}
			}
		} else if callee != nil {
			env.pkg = callee.Pkg.Pkg
			for _, p := range callee.Params {
				bind(p.Name(), p.Type())
			}
		}
		for _, m := range spec.Modifies {
			for _, mt := range v.evalMod(env, m) {
				if mt.kind == "struct" {
					for h := range v.heapSorts {
						if strings.HasPrefix(h, mt.heap) {
							out[h] = "write"
						}
					}
				} else {
					out[mt.heap] = "write"
				}
				reach(mt.elem)
			}
		}
		allocs = true
	}
	if callee != nil {
		res := callee.Signature.Results()
		for i := 0; i < res.Len(); i++ {
			if hasRefs(res.At(i).Type()) {
				allocs = true
				reach(res.At(i).Type())
			}
		}
	}
	return out, allocs
}

func (g *Gen) declareFun(v *FnVC, name string, args []string, ret string) {
	sig := "(" + strings.Join(args, " ") + ") " + ret
	if _, ok := v.declared[name]; ok {
		return
	}
	v.declared[name] = sig
	v.decls = append(v.decls, fmt.Sprintf("(declare-fun %s %s)", name, sig))
}

// globalInit finds the composite-literal initialiser of a package variable.
func (g *Gen) globalInit(gv *types.Var) *ast.CompositeLit {
	p := g.pkgs[gv.Pkg().Path()]
	if p == nil {
		return nil
	}
	for _, f := range p.Syntax {
		for _, d := range f.Decls {
			gd, ok := d.(*ast.GenDecl)
			if !ok || gd.Tok != token.VAR {
				continue
			}
			for _, s := range gd.Specs {
				vs := s.(*ast.ValueSpec)
				for i, n := range vs.Names {
					if p.TypesInfo.Defs[n] == gv && i < len(vs.Values) {
						if cl, ok := vs.Values[i].(*ast.CompositeLit); ok {
							return cl
						}
					}
				}
			}
		}
	}
	return nil
}

func (g *Gen) constExpr(pkg *types.Package, e ast.Expr) *big.Int {
	p := g.pkgs[pkg.Path()]
	if p == nil {
		return nil
	}
	tv, ok := p.TypesInfo.Types[e]
	if !ok || tv.Value == nil {
		return nil
	}
	v, ok := new(big.Int).SetString(tv.Value.ExactString(), 10)
	if !ok {
		return nil
	}
	return v
}

// FindFunc resolves "pkg.Func" or "pkg.(*T).Method".
func (g *Gen) FindFunc(name string) *ssa.Function {
	i := strings.Index(name, ".")
	if i < 0 {
		return nil
	}
	pkgName, key := name[:i], name[i+1:]
	for path, sp := range g.spkgs {
		if !strings.HasPrefix(path, modPath) || sp == nil {
			continue
		}
		rel := strings.TrimPrefix(strings.TrimPrefix(path, modPath), "/")
		if rel != pkgName && sp.Pkg.Name() != pkgName {
			continue
		}
		for _, m := range sp.Members {
			switch m := m.(type) {
			case *ssa.Function:
				if funcKey(m) == key {
					return m
				}
			case *ssa.Type:
				for _, t := range []types.Type{m.Type(), types.NewPointer(m.Type())} {
					ms := g.prog.MethodSets.MethodSet(t)
					for k := 0; k < ms.Len(); k++ {
						f := g.prog.MethodValue(ms.At(k))
						if f != nil && f.Synthetic == "" && funcKey(f) == key {
							return f
						}
					}
				}
			}
		}
	}
	return nil
}

// GenFunc generates all obligations of one function under contract.
func (g *Gen) GenFunc(fn *ssa.Function, spec *FuncSpec) (vc *FnVC, err error) {
	if spec.Opts["mode"] == "bv" {
		return g.GenFuncBV(fn, spec)
	}
	v := &FnVC{g: g, fn: fn, spec: spec, sf: g.specFileOf(spec), declared: map[string]string{}, regs: map[ssa.Value]Val{},
		edges: map[[2]int]*edgeInfo{}, reach: map[*ssa.BasicBlock]*Term{}, counters: map[string]int{},
		locals: map[*ssa.Alloc]string{}, lstruct: map[*ssa.Alloc]bool{}, heapSorts: map[string]string{},
		loopInfo: map[*Loop]*loopState{}, blockCases: map[*ssa.BasicBlock][]*Term{}, paramConsts: map[string]bool{}, refHeaps: map[string]bool{}, ghostSeq: map[string]bool{}, usedSpecs: map[string]bool{}, ghostVars: map[string]types.Type{}, callOrd: map[string]int{}}
	v.name = fn.Pkg.Pkg.Name() + "." + funcKey(fn)
	v.pkg = fn.Pkg.Pkg
	resetTermTables()
	simplePatternsOnly = spec.Opts["patterns"] == "simple"
	defer func() {
		if r := recover(); r != nil {
			switch e := r.(type) {
			case Unsupported:
				err = e
			case SpecError:
				err = e
			default:
				panic(r)
			}
			vc = v
		}
	}()
	var cuts []string
	for _, l := range spec.Loops {
		if _, e := fmt.Sscanf(l.Key, "%d", new(int)); e != nil {
			cuts = append(cuts, l.Key)
		}
	}
	cfg, cerr := AnalyseCFG(fn, cuts)
	if cerr != nil {
		return v, Unsupported{cerr.Error()}
	}
	v.cfg = cfg
	for _, ls := range spec.Loops {
		found := false
		for _, l := range cfg.Loops {
			if fmt.Sprint(l.Ordinal) == ls.Key || (l.Label == ls.Key && ls.Key != "") {
				if l.Spec != nil {
					specErr("two invariant blocks for loop %s", ls.Key)
				}
				l.Spec = ls
				found = true
				break
			}
		}
		if !found {
			specErr("contract names loop %q but the function has no such loop (loops: %d)", ls.Key, len(cfg.Loops))
		}
	}
	for _, b := range fn.Blocks {
		for _, in := range b.Instrs {
			switch in.(type) {
			case *ssa.Return:
				v.counters["retcount"]++
			case *ssa.Defer:
				unsupported("defer")
			}
		}
	}
	v.classifyAllocs()
	// entry state
	v.entry = &State{vars: map[string]*Term{}, heaps: map[string]*Term{}}
	v.entry.alloc = v.declare("alloc@0", SInt)
	v.assume(True, Ge(v.entry.alloc, IntLit(1)), "alloc")
	v.curGuard = True
	env := &Env{v: v, g: g, pkg: fn.Pkg.Pkg, sf: v.sf, vars: map[string]Val{}, st: v.entry, freshBase: v.entry.alloc}
	env.old = env
	v.entryEnv = env
	for i, p := range fn.Params {
		s := sortOf(p.Type())
		if s == "TUPLE" {
			unsupported("parameter %s of type %s", p.Name(), p.Type())
		}
		if s == "STRUCT" {
			st, ok := p.Type().Underlying().(*types.Struct)
			if !ok || !flatStruct(p.Type()) {
				unsupported("parameter %s of type %s", p.Name(), p.Type())
			}
			fields := map[string]Val{}
			for k := 0; k < st.NumFields(); k++ {
				f := st.Field(k)
				fs := sortOf(f.Type())
				pn := "p_" + sanitize(p.Name()) + "_" + sanitize(f.Name())
				var t *Term
				if fs == SSlice {
					t = MkSlice(v.declare(pn+".ref", SInt), v.declare(pn+".off", SInt), v.declare(pn+".len", SInt), v.declare(pn+".cap", SInt))
					v.paramConsts[pn+".ref"] = true
					belowBase[pn+".ref"] = true
				} else {
					t = v.declare(pn, fs)
				}
				v.assume(True, v.typeInv(t, f.Type(), v.entry), "type")
				fields[f.Name()] = Val{T: t, Typ: f.Type()}
			}
			val := Val{Typ: p.Type(), Fields: fields}
			v.regs[p] = val
			env.vars[p.Name()] = val
			continue
		}
		var t *Term
		if s == SSlice {
			pn := "p_" + sanitize(p.Name())
			t = MkSlice(v.declare(pn+".ref", SInt), v.declare(pn+".off", SInt), v.declare(pn+".len", SInt), v.declare(pn+".cap", SInt))
			v.paramConsts[pn+".ref"] = true
			belowBase[pn+".ref"] = true
		} else {
			t = v.declare("p_"+sanitize(p.Name()), s)
			if _, isPtr := p.Type().Underlying().(*types.Pointer); isPtr {
				belowBase[t.Name] = true
			}
		}
		v.assume(True, v.typeInv(t, p.Type(), v.entry), "type")
		val := Val{T: t, Typ: p.Type()}
		v.regs[p] = val
		env.vars[p.Name()] = val
		if i == 0 && fn.Signature.Recv() != nil {
			if _, isPtr := p.Type().Underlying().(*types.Pointer); isPtr && spec.Opts["nil-receiver"] != "true" {
				v.assume(True, Ne(t, IntLit(0)), "receiver-non-nil")
			}
		}
	}
	v.prescanHeaps()
	v.assumeClosure(v.entry, True, nil)
	for _, fvv := range fn.FreeVars {
		unsupported("free variable %s (closure body)", fvv.Name())
	}
	// ghost variables
	for _, gc := range spec.Ghost {
		if strings.HasPrefix(strings.TrimSpace(gc.Text), "at ") {
			continue // ghost update, applied where it says
		}
		v.declGhost(gc)
	}
	v.bindGhost(env, v.entry)
	v.modAll = spec.ModAll
	for _, m := range spec.Modifies {
		v.mods = append(v.mods, v.evalMod(env, m)...)
	}
	for _, c := range spec.Requires {
		v.assume(True, v.evalClause(env, c), "requires")
	}
	// lemmas requested by the contract
	if ls := spec.Opts["lemmas"]; ls != "" {
		for _, name := range strings.Split(ls, ",") {
			v.assumeLemma(strings.TrimSpace(name))
		}
	}
	for _, u := range spec.Uses {
		v.useLemma(env, u, True)
	}
	if len(spec.Splits) > 0 {
		var cases []*Term
		for _, c := range spec.Splits {
			cases = append(cases, v.evalClause(env, c))
		}
		v.oblige("split", "split-cover", True, Or(cases...), spec.Line, "the case split covers every input")
		v.assumes = v.assumes[:len(v.assumes)-1]
		v.fnCases = cases
	}
	v.run()
	if len(v.fnCases) > 0 {
		for _, o := range v.obls {
			if len(o.Split) == 0 && o.Kind != "split" {
				o.Split = v.fnCases
				o.SplitFirst = v.spec.Opts["splitfirst"] == "true" && (o.Kind == "inv-init" || o.Kind == "ensures")
			}
		}
	}
	if v.spec.Opts["splitfirst"] == "all" {
		// try the case split (function-level cases or merge-edge cases) before the whole query
		for _, o := range v.obls {
			if len(o.Split) > 1 {
				o.SplitFirst = true
			}
		}
	}
	// every loop must have been reached or be dead
	return v, nil
}

func (v *FnVC) declGhost(gc *Clause) {
	// "var name type = init"
	t := strings.TrimSpace(gc.Text)
	if !strings.HasPrefix(t, "var ") {
		specErr("%s: ghost clause must be 'var name type = expr'", gc.Line)
	}
	t = strings.TrimSpace(t[4:])
	eq := strings.Index(t, "=")
	if eq < 0 {
		specErr("%s: ghost var needs an initialiser", gc.Line)
	}
	decl := strings.Fields(strings.TrimSpace(t[:eq]))
	if len(decl) != 2 {
		specErr("%s: ghost var needs 'name type'", gc.Line)
	}
	if decl[1] == "seq" {
		// an unbounded integer sequence: a plain SMT array; initial contents arbitrary
		v.ghostVars[decl[0]] = types.NewSlice(tInt)
		v.ghostSeq[decl[0]] = true
		v.entry.vars["ghost."+decl[0]] = v.fresh("ghost_"+decl[0], ArrSort(SInt))
		return
	}
	typ := v.g.parseType(decl[1], v.fn.Pkg.Pkg)
	e, err := ParseExpr(strings.TrimSpace(t[eq+1:]))
	if err != nil {
		specErr("%s: %v", gc.Line, err)
	}
	v.ghostVars[decl[0]] = typ
	v.entry.vars["ghost."+decl[0]] = v.entryEnv.eval(e).T
}

// ---------- SMT emission ----------

func (g *Gen) preamble(v *FnVC) string {
	var b strings.Builder
	b.WriteString("(set-logic ALL)\n")
	b.WriteString("(declare-datatypes ((Slice 0)) (((mk-slice (s-ref Int) (s-off Int) (s-len Int) (s-cap Int)))))\n")
	fmt.Fprintf(&b, "(define-fun valid-slice ((s Slice)) Bool (and (>= (s-ref s) 0) (>= (s-off s) 0) (>= (s-len s) 0) (<= (s-len s) (s-cap s)) (<= (+ (s-off s) (s-cap s)) %s) (=> (= (s-ref s) 0) (= (s-cap s) 0))))\n", maxLenBig.String())
	// Go's truncated division: declared symbols with definitional axioms, so that
	// godiv/gomod applications survive as terms and can serve as triggers
	b.WriteString("(declare-fun godiv (Int Int) Int)\n(declare-fun gomod (Int Int) Int)\n")
	b.WriteString("(assert (forall ((a Int) (b Int)) (! (= (godiv a b) (ite (>= a 0) (div a b) (- (div (- a) b)))) :pattern ((godiv a b)))))\n")
	b.WriteString("(assert (forall ((a Int) (b Int)) (! (= (gomod a b) (- a (* b (ite (>= a 0) (div a b) (- (div (- a) b)))))) :pattern ((gomod a b)))))\n")
	b.WriteString("(declare-fun trig (Int) Bool)\n(assert (forall ((x Int)) (! (trig x) :pattern ((trig x)))))\n")
	// pow2 table
	b.WriteString("(define-fun pow2 ((n Int)) Int ")
	for i := 0; i <= 64; i++ {
		fmt.Fprintf(&b, "(ite (= n %d) %s ", i, pow2big(uint(i)).String())
	}
	b.WriteString("0")
	b.WriteString(strings.Repeat(")", 65))
	b.WriteString(")\n")
	for _, f := range []string{"int_and", "int_or", "int_xor", "int_andnot"} {
		fmt.Fprintf(&b, "(declare-fun %s (Int Int) Int)\n", f)
	}
	b.WriteString(g.specFuncDefs(v))
	return b.String()
}

// axiomatized: a non-recursive spec function listed in `opt axiomatize=f,g` is kept as an
// uninterpreted symbol with its definition as a triggered axiom (instead of being expanded
// like a macro), so that it can occur in patterns and nonlinear bodies stay out of quantifiers.
func (g *Gen) axiomatized(v *FnVC, f *SpecFunc) bool {
	if v == nil || v.spec == nil || v.spec.Opts["axiomatize"] == "" {
		return false
	}
	for _, n := range strings.Split(v.spec.Opts["axiomatize"], ",") {
		if strings.TrimSpace(n) == f.Name {
			return true
		}
	}
	return false
}

// specFuncDefs emits the recursive / opaque spec functions visible to v.
func (g *Gen) specFuncDefs(v *FnVC) string {
	// render with a fixed counter base so that the text does not depend on when it is rendered
	saved := freshCounter
	freshCounter = 900000
	defer func() { freshCounter = saved }()
	var fs []*SpecFunc
	seen := map[string]bool{}
	add := func(m map[string]*SpecFunc) {
		var names []string
		for n := range m {
			names = append(names, n)
		}
		sort.Strings(names)
		for _, n := range names {
			f := m[n]
			if (f.Rec || f.Opaque || g.axiomatized(v, f)) && !seen[n] {
				seen[n] = true
				fs = append(fs, f)
			}
		}
	}
	add(g.globalSpecs)
	var pkg *types.Package
	var sf *SpecFile
	if v != nil {
		sf = v.sf
		pkg = v.pkg
		if sf != nil {
			add(sf.Specs)
		}
	}
	if v != nil {
		// only the functions this VC mentions, closed under the calls in their bodies
		byName := map[string]*SpecFunc{}
		for _, f := range fs {
			byName[f.Name] = f
		}
		lookup := func(n string) *SpecFunc {
			if sf != nil {
				if f := sf.Specs[n]; f != nil {
					return f
				}
			}
			return g.globalSpecs[n]
		}
		need := map[string]bool{}
		var visit func(n string)
		var walk func(e *Expr)
		walk = func(e *Expr) {
			if e == nil {
				return
			}
			if e.Kind == "call" {
				visit(e.Name)
			}
			for _, a := range e.Args {
				walk(a)
			}
			walk(e.Lo)
			walk(e.Hi)
		}
		visit = func(n string) {
			if need[n] {
				return
			}
			f := lookup(n)
			if f == nil {
				return
			}
			need[n] = true
			walk(f.Body)
		}
		for n := range v.usedSpecs {
			visit(n)
		}
		var keep []*SpecFunc
		for _, f := range fs {
			if need[f.Name] {
				keep = append(keep, f)
			}
		}
		fs = keep
	}
	var b strings.Builder
	var later []string
	for _, f := range fs {
		var params []string
		env := &Env{g: g, pkg: pkg, sf: sf, vars: map[string]Val{}}
		for _, p := range f.Params {
			pt := g.parseType(p.Type, pkg)
			s := sortOf(pt)
			if s == SSlice {
				et := elemTypeOf(pt)
				params = append(params, fmt.Sprintf("(%s_arr %s) (%s Slice)", p.Name, ArrSort(sortOf(et)), p.Name))
				env.vars[p.Name] = Val{T: Var(p.Name, SSlice), Typ: pt, Arr: Var(p.Name+"_arr", ArrSort(sortOf(et)))}
			} else {
				params = append(params, fmt.Sprintf("(%s %s)", p.Name, s))
				env.vars[p.Name] = Val{T: Var(p.Name, s), Typ: pt}
			}
		}
		rt := g.parseType(f.Ret, pkg)
		if f.Opaque {
			var ss []string
			for _, p := range f.Params {
				pt := g.parseType(p.Type, pkg)
				s := sortOf(pt)
				if s == SSlice {
					ss = append(ss, ArrSort(sortOf(elemTypeOf(pt))), SSlice)
				} else {
					ss = append(ss, s)
				}
			}
			fmt.Fprintf(&b, "(declare-fun sf_%s (%s) %s)\n", f.Name, strings.Join(ss, " "), sortOf(rt))
			continue
		}
		// Recursive spec functions are uninterpreted symbols with a definitional
		// axiom triggered on applications (z3 5.1.0 answered `unsat` on a
		// satisfiable set of true lemmas about a define-fun-rec function, so
		// define-fun-rec is not used at all).
		var ss, bvs []string
		for _, p := range f.Params {
			pt := g.parseType(p.Type, pkg)
			s := sortOf(pt)
			if s == SSlice {
				ss = append(ss, ArrSort(sortOf(elemTypeOf(pt))), SSlice)
				bvs = append(bvs, p.Name+"_arr", p.Name)
			} else {
				ss = append(ss, s)
				bvs = append(bvs, p.Name)
			}
		}
		fmt.Fprintf(&b, "(declare-fun sf_%s (%s) %s)\n", f.Name, strings.Join(ss, " "), sortOf(rt))
		later = append(later, fmt.Sprintf("(assert (forall (%s) (! (= (sf_%s %s) %s) :pattern ((sf_%s %s)))))\n",
			strings.Join(params, " "), f.Name, strings.Join(bvs, " "), env.eval(f.Body).T.String(), f.Name, strings.Join(bvs, " ")))
	}
	for _, l := range later {
		b.WriteString(l)
	}
	return b.String()
}

// Query renders one obligation as an SMT-LIB script.
func (o *Obligation) Query() string { return o.QueryCase(nil) }

// QueryCase renders the obligation under an extra case assumption.
var queryMu sync.Mutex

func (o *Obligation) QueryCase(extra *Term) string {
	if o.RawQuery != "" {
		return o.RawQuery
	}
	queryMu.Lock() // Term.String caches; rendering is not concurrent
	defer queryMu.Unlock()
	v := o.vc
	var b strings.Builder
	b.WriteString(v.g.preamble(v))
	for _, d := range v.decls[:min(o.NDecl, len(v.decls))] {
		b.WriteString(d)
		b.WriteString("\n")
	}
	// later declarations may be referenced by earlier definitions only if they
	// were created earlier, so the prefix is closed.
	anc := v.ancestorsOf(o.Block)
	for i, d := range v.defs[:o.NDef] {
		if db := v.defBlocks[i]; anc != nil && db != nil && !anc[db] {
			continue
		}
		b.WriteString("(assert " + d.String() + ")\n")
	}
	for _, a := range v.assumes[:o.NAssume] {
		if anc != nil && a.block != nil && !anc[a.block] {
			continue
		}
		b.WriteString("(assert " + Implies(a.guard, a.f).String() + ")\n")
	}
	b.WriteString("(assert " + o.Guard.String() + ")\n")
	if extra != nil {
		b.WriteString("(assert " + extra.String() + ")\n")
	}
	b.WriteString("(assert (not " + o.Goal.String() + "))\n")
	b.WriteString("(check-sat)\n")
	return b.String()
}

// ancestorsOf: blocks that can reach b in the acyclic (cut) CFG, including b.
// Facts established in other blocks cannot matter on a path to b and are
// dropped from b's queries (dropping assumptions is always sound).
func (v *FnVC) ancestorsOf(b *ssa.BasicBlock) map[*ssa.BasicBlock]bool {
	if b == nil || v.cfg == nil {
		return nil
	}
	if v.ancestors == nil {
		v.ancestors = map[*ssa.BasicBlock]map[*ssa.BasicBlock]bool{}
	}
	if m, ok := v.ancestors[b]; ok {
		return m
	}
	m := map[*ssa.BasicBlock]bool{}
	var rec func(x *ssa.BasicBlock)
	rec = func(x *ssa.BasicBlock) {
		if m[x] {
			return
		}
		m[x] = true
		for _, p := range x.Preds {
			if !v.cfg.BackEdge[[2]int{p.Index, x.Index}] {
				rec(p)
			}
		}
	}
	rec(b)
	v.ancestors[b] = m
	return m
}

func (g *Gen) specFileByPkgName(name string) *SpecFile {
	for path, sf := range g.specFiles {
		if p := g.pkgs[path]; p != nil && (p.Types.Name() == name || strings.HasSuffix(path, "/"+name)) {
			return sf
		}
	}
	return nil
}

// ghostUpdates applies the contract's "ghost at <where>: lhs := rhs" clauses.
// lhs: g(s) (whole ghost array, rhs "map z: e"), g(s)[i] (one element), or a
// ghost value g(s). Ghost code only writes ghost heaps.
func (v *FnVC) ghostUpdates(where string, env *Env, st *State, pos string) {
	for _, gc := range v.spec.Ghost {
		t := strings.TrimSpace(gc.Text)
		if !strings.HasPrefix(t, "at "+where+":") {
			continue
		}
		t = strings.TrimSpace(t[len("at "+where+":"):])
		i := strings.Index(t, ":=")
		if i < 0 {
			specErr("%s: ghost update needs ':='", gc.Line)
		}
		lhsE, err := ParseExpr(strings.TrimSpace(t[:i]))
		if err != nil {
			specErr("%s: %v", gc.Line, err)
		}
		rhsT := strings.TrimSpace(t[i+2:])
		env.st = st
		switch {
		case lhsE.Kind == "call" && env.ghostDecl(lhsE.Name) != nil && env.ghostDecl(lhsE.Name).Scalar:
			gd := env.ghostDecl(lhsE.Name)
			carrier := env.eval(lhsE.Args[0])
			rhsE, err := ParseExpr(rhsT)
			if err != nil {
				specErr("%s: %v", gc.Line, err)
			}
			val := env.eval(rhsE)
			hn := "HG_" + gd.Name
			et := v.g.parseType(gd.Elem, v.pkg)
			h := v.heap(st, hn, ArrSort(sortOf(et)))
			v.frameCheck("cell", hn, SRef(carrier.T), v.fn.Pos())
			st.heaps[hn] = v.define(hn, Store(h, SRef(carrier.T), val.T))
		case lhsE.Kind == "call" && env.ghostDecl(lhsE.Name) != nil:
			gd := env.ghostDecl(lhsE.Name)
			carrier := env.eval(lhsE.Args[0])
			if !strings.HasPrefix(rhsT, "map ") {
				specErr("%s: whole-array ghost update needs 'map z: expr'", gc.Line)
			}
			c := strings.Index(rhsT, ":")
			zname := strings.TrimSpace(rhsT[4:c])
			body, err := ParseExpr(strings.TrimSpace(rhsT[c+1:]))
			if err != nil {
				specErr("%s: %v", gc.Line, err)
			}
			et := v.g.parseType(gd.Elem, v.pkg)
			hn := "HG_" + gd.Name
			h := v.heap(st, hn, HeapSort(sortOf(et)))
			na := v.fresh("ghost_"+gd.Name, ArrSort(sortOf(et)))
			freshCounter++
			K := Var(fmt.Sprintf("gz?%d", freshCounter), SInt)
			n := env.child()
			n.vars[zname] = intVal(Sub(K, SOff(carrier.T)))
			bv := n.eval(body)
			v.assume(v.curGuard, Forall([]*Term{K}, Implies(And(Le(SOff(carrier.T), K), Lt(K, Add(SOff(carrier.T), SLen(carrier.T)))),
				Eq(Select(na, K), bv.T)), []*Term{Select(na, K)}), "ghost-map")
			v.frameCheck("array", hn, SRef(carrier.T), v.fn.Pos())
			st.heaps[hn] = v.define(hn, Store(h, SRef(carrier.T), na))
		case lhsE.Kind == "index" && lhsE.Args[0].Kind == "call" && env.ghostDecl(lhsE.Args[0].Name) != nil:
			gd := env.ghostDecl(lhsE.Args[0].Name)
			carrier := env.eval(lhsE.Args[0].Args[0])
			idx := env.int(lhsE.Args[1])
			rhsE, err := ParseExpr(rhsT)
			if err != nil {
				specErr("%s: %v", gc.Line, err)
			}
			val := env.eval(rhsE)
			et := v.g.parseType(gd.Elem, v.pkg)
			hn := "HG_" + gd.Name
			h := v.heap(st, hn, HeapSort(sortOf(et)))
			v.frameCheck("array", hn, SRef(carrier.T), v.fn.Pos())
			inner := v.define("arr_"+hn, Store(Select(h, SRef(carrier.T)), Add(SOff(carrier.T), idx), v.define("gval", val.T)))
			st.heaps[hn] = v.define(hn, Store(h, SRef(carrier.T), inner))
		default:
			specErr("%s: unsupported ghost update target %s", gc.Line, lhsE)
		}
	}
}
