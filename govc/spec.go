package main

// Contract language: lexer, expression parser, and the contract-file reader.
// Contracts are `//@` lines in comment-only files (DESIGN §2.2).

import (
	"fmt"
	"os"
	"path/filepath"
	"strings"
	"unicode"
)

// ---------- expressions ----------

type Expr struct {
	Kind string // ident int bool nil binop unop index slice call field quant ite
	Op   string
	Name string
	Args []*Expr
	// quant
	Var    string
	Lo, Hi *Expr
	Pos    string
}

func (e *Expr) String() string {
	switch e.Kind {
	case "ident", "int", "bool", "nil":
		return e.Name
	case "binop":
		return "(" + e.Args[0].String() + " " + e.Op + " " + e.Args[1].String() + ")"
	case "unop":
		return e.Op + e.Args[0].String()
	case "index":
		return e.Args[0].String() + "[" + e.Args[1].String() + "]"
	case "slice":
		s := e.Args[0].String() + "["
		if e.Args[1] != nil {
			s += e.Args[1].String()
		}
		s += ":"
		if e.Args[2] != nil {
			s += e.Args[2].String()
		}
		return s + "]"
	case "call":
		var as []string
		for _, a := range e.Args {
			as = append(as, a.String())
		}
		return e.Name + "(" + strings.Join(as, ", ") + ")"
	case "field":
		return e.Args[0].String() + "." + e.Name
	case "quant":
		return "(" + e.Op + " " + e.Var + " in " + e.Lo.String() + ".." + e.Hi.String() + ": " + e.Args[0].String() + ")"
	case "deref":
		return "*" + e.Args[0].String()
	}
	return "?"
}

type tok struct {
	kind string // id int op eof
	s    string
}

func lex(src string) ([]tok, error) {
	var toks []tok
	i := 0
	for i < len(src) {
		c := src[i]
		switch {
		case c == ' ' || c == '\t':
			i++
		case unicode.IsLetter(rune(c)) || c == '_':
			j := i
			for j < len(src) && (unicode.IsLetter(rune(src[j])) || unicode.IsDigit(rune(src[j])) || src[j] == '_') {
				j++
			}
			toks = append(toks, tok{"id", src[i:j]})
			i = j
		case unicode.IsDigit(rune(c)):
			j := i
			for j < len(src) && (unicode.IsDigit(rune(src[j])) || src[j] == '_') {
				j++
			}
			toks = append(toks, tok{"int", strings.ReplaceAll(src[i:j], "_", "")})
			i = j
		default:
			ops := []string{"<==>", "==>", "..", "==", "!=", "<=", ">=", "&&", "||", "<<", ">>", "+", "-", "*", "/", "%", "<", ">", "!", "(", ")", "[", "]", ":", ",", ".", "?", "&", "|", "^"}
			found := false
			for _, o := range ops {
				if strings.HasPrefix(src[i:], o) {
					toks = append(toks, tok{"op", o})
					i += len(o)
					found = true
					break
				}
			}
			if !found {
				return nil, fmt.Errorf("bad character %q in %q", c, src)
			}
		}
	}
	toks = append(toks, tok{"eof", ""})
	return toks, nil
}

type parser struct {
	toks []tok
	p    int
	src  string
}

func (p *parser) peek() tok { return p.toks[p.p] }
func (p *parser) next() tok  { t := p.toks[p.p]; p.p++; return t }
func (p *parser) isOp(s string) bool {
	t := p.peek()
	return t.kind == "op" && t.s == s
}
func (p *parser) isID(s string) bool {
	t := p.peek()
	return t.kind == "id" && t.s == s
}
func (p *parser) expect(s string) {
	t := p.next()
	if t.s != s {
		panic(fmt.Sprintf("contract syntax: expected %q, got %q in %q", s, t.s, p.src))
	}
}

func ParseExpr(src string) (e *Expr, err error) {
	toks, err := lex(src)
	if err != nil {
		return nil, err
	}
	p := &parser{toks: toks, src: src}
	defer func() {
		if r := recover(); r != nil {
			err = fmt.Errorf("%v", r)
		}
	}()
	e = p.expr()
	if p.peek().kind != "eof" {
		panic(fmt.Sprintf("contract syntax: trailing %q in %q", p.peek().s, src))
	}
	return e, nil
}

func (p *parser) expr() *Expr {
	if p.isID("forall") || p.isID("exists") {
		op := p.next().s
		if p.isOp("!") { // forall! / exists!: expanded over literal bounds
			p.next()
			op += "!"
		}
		v := p.next()
		if v.kind != "id" {
			panic("quantifier variable expected in " + p.src)
		}
		if !p.isID("in") {
			panic("'in' expected in " + p.src)
		}
		p.next()
		lo := p.sum()
		p.expect("..")
		hi := p.sum()
		p.expect(":")
		body := p.expr()
		return &Expr{Kind: "quant", Op: op, Var: v.s, Lo: lo, Hi: hi, Args: []*Expr{body}}
	}
	return p.iff()
}

func (p *parser) iff() *Expr {
	l := p.implies()
	for p.isOp("<==>") {
		p.next()
		r := p.implies()
		l = &Expr{Kind: "binop", Op: "<==>", Args: []*Expr{l, r}}
	}
	return l
}

func (p *parser) implies() *Expr {
	l := p.or()
	if p.isOp("==>") {
		p.next()
		var r *Expr
		if p.isID("forall") || p.isID("exists") {
			r = p.expr()
		} else {
			r = p.implies()
		}
		return &Expr{Kind: "binop", Op: "==>", Args: []*Expr{l, r}}
	}
	return l
}

func (p *parser) or() *Expr {
	l := p.and()
	for p.isOp("||") {
		p.next()
		var r *Expr
		if p.isID("forall") || p.isID("exists") {
			r = p.expr()
		} else {
			r = p.and()
		}
		l = &Expr{Kind: "binop", Op: "||", Args: []*Expr{l, r}}
	}
	return l
}

func (p *parser) and() *Expr {
	l := p.cmp()
	for p.isOp("&&") {
		p.next()
		var r *Expr
		if p.isID("forall") || p.isID("exists") {
			r = p.expr()
		} else {
			r = p.cmp()
		}
		l = &Expr{Kind: "binop", Op: "&&", Args: []*Expr{l, r}}
	}
	return l
}

func isCmp(s string) bool {
	switch s {
	case "==", "!=", "<", "<=", ">", ">=":
		return true
	}
	return false
}

func (p *parser) cmp() *Expr {
	l := p.sum()
	var res *Expr
	for p.peek().kind == "op" && isCmp(p.peek().s) {
		op := p.next().s
		r := p.sum()
		c := &Expr{Kind: "binop", Op: op, Args: []*Expr{l, r}}
		if res == nil {
			res = c
		} else {
			res = &Expr{Kind: "binop", Op: "&&", Args: []*Expr{res, c}}
		}
		l = r
	}
	if res != nil {
		return res
	}
	return l
}

func (p *parser) sum() *Expr {
	l := p.prod()
	for p.isOp("+") || p.isOp("-") || p.isOp("|") || p.isOp("^") {
		op := p.next().s
		r := p.prod()
		l = &Expr{Kind: "binop", Op: op, Args: []*Expr{l, r}}
	}
	return l
}

func (p *parser) prod() *Expr {
	l := p.unary()
	for p.isOp("*") || p.isOp("/") || p.isOp("%") || p.isOp("<<") || p.isOp(">>") || p.isOp("&") {
		op := p.next().s
		r := p.unary()
		l = &Expr{Kind: "binop", Op: op, Args: []*Expr{l, r}}
	}
	return l
}

func (p *parser) unary() *Expr {
	if p.isOp("!") || p.isOp("-") {
		op := p.next().s
		x := p.unary()
		return &Expr{Kind: "unop", Op: op, Args: []*Expr{x}}
	}
	if p.isOp("*") {
		p.next()
		x := p.unary()
		return &Expr{Kind: "deref", Args: []*Expr{x}}
	}
	return p.postfix()
}

func (p *parser) postfix() *Expr {
	x := p.primary()
	for {
		switch {
		case p.isOp("["):
			p.next()
			var lo, hi *Expr
			if !p.isOp(":") {
				lo = p.expr()
			}
			if p.isOp(":") {
				p.next()
				if !p.isOp("]") {
					hi = p.expr()
				}
				p.expect("]")
				x = &Expr{Kind: "slice", Args: []*Expr{x, lo, hi}}
			} else {
				p.expect("]")
				x = &Expr{Kind: "index", Args: []*Expr{x, lo}}
			}
		case p.isOp("."):
			p.next()
			f := p.next()
			x = &Expr{Kind: "field", Name: f.s, Args: []*Expr{x}}
		case p.isOp("("):
			if x.Kind != "ident" && x.Kind != "field" {
				panic("call of non-identifier in " + p.src)
			}
			p.next()
			var args []*Expr
			for !p.isOp(")") {
				args = append(args, p.expr())
				if p.isOp(",") {
					p.next()
				}
			}
			p.expect(")")
			name := x.Name
			if x.Kind == "field" {
				name = x.Args[0].String() + "." + x.Name
			}
			x = &Expr{Kind: "call", Name: name, Args: args}
		default:
			return x
		}
	}
}

func (p *parser) primary() *Expr {
	t := p.next()
	switch t.kind {
	case "int":
		return &Expr{Kind: "int", Name: t.s}
	case "id":
		switch t.s {
		case "true", "false":
			return &Expr{Kind: "bool", Name: t.s}
		case "nil":
			return &Expr{Kind: "nil", Name: "nil"}
		}
		return &Expr{Kind: "ident", Name: t.s}
	case "op":
		if t.s == "(" {
			e := p.expr()
			if p.isOp("?") {
				p.next()
				a := p.expr()
				p.expect(":")
				b := p.expr()
				p.expect(")")
				return &Expr{Kind: "ite", Args: []*Expr{e, a, b}}
			}
			p.expect(")")
			return e
		}
	}
	panic(fmt.Sprintf("contract syntax: unexpected %q in %q", t.s, p.src))
}

// ---------- contract files ----------

type Clause struct {
	Kind string // requires ensures invariant decreases modifies assert panics ...
	Text string
	E    *Expr
	Es   []*Expr // decreases tuple / modifies list
	Name string  // optional label "[name]"
	Line string  // file:line
}

type LoopSpec struct {
	Key        string // ordinal ("1") or block label
	Invariants []*Clause
	Decreases  *Clause
	Opts       map[string]string
	Uses       []*Clause
	BackUses   []*Clause // use at back: instantiated in the back-edge state, iter() = iteration start
	Splits     []*Clause // split c1 | c2 | ... inside a loop block
}

type AssertSpec struct {
	At string // "call N of f" / "label X" ...
	C  *Clause
}

type SpecParam struct {
	Name string
	Type string
}

type SpecFunc struct {
	Name   string
	Params []SpecParam
	Ret    string // Go type text, "bool" for pred
	Body   *Expr
	Rec    bool
	Line   string
	Opaque bool // uninterpreted (axioms supplied by lemmas)
}

type Lemma struct {
	Name     string
	Params   []SpecParam
	Requires []*Clause
	Ensures  []*Clause
	By       string // smt | induction <var> | lean <thm> | axiom
	Line     string
	Pats     []*Expr
	Uses     []*Clause
	Opts     map[string]string // opt lines inside the lemma block (axiomatize=...)
}

type FuncSpec struct {
	Key      string // "Intersection", "(*SortedInts).Remove", "sort.Ints"
	Pkg      string
	Requires []*Clause
	Ensures  []*Clause
	Modifies []*Expr
	ModGhost []string
	ModAll   bool
	Panics   []*Clause // allowed panic conditions
	Loops    []*LoopSpec
	Asserts  []*AssertSpec
	Opts     map[string]string
	Ghost    []*Clause
	Params   []SpecParam // extern only: parameter names/types
	Results  []SpecParam
	Extern   bool
	Line     string
	Pure     bool
	Decreases *Clause
	Uses     []*Clause
	ExitUses   []*Clause // use at exit
	Splits   []*Clause // case split of every obligation (cases must cover: checked)
}

type GhostDecl struct {
	Name   string
	Param  string // type of the carrier (e.g. []int)
	Elem   string // element / value type
	Scalar bool
}

type SpecFile struct {
	Ghosts map[string]*GhostDecl
	Pkg    string
	Funcs  map[string]*FuncSpec
	Specs  map[string]*SpecFunc
	Lemmas []*Lemma
	Order  []string
}

var clauseKeywords = map[string]bool{
	"func": true, "requires": true, "ensures": true, "modifies": true, "panics": true,
	"loop": true, "invariant": true, "decreases": true, "assert": true, "opt": true,
	"spec": true, "pred": true, "lemma": true, "by": true, "extern": true, "ghost": true,
	"pattern": true, "opaque": true, "end": true, "use": true, "ghostarray": true, "ghostval": true, "split": true,
}

type rawLine struct {
	kw, rest, pos string
}

func readContractLines(path string) ([]rawLine, error) {
	data, err := os.ReadFile(path)
	if err != nil {
		return nil, err
	}
	var out []rawLine
	for n, line := range strings.Split(string(data), "\n") {
		t := strings.TrimSpace(line)
		if !strings.HasPrefix(t, "//@") {
			continue
		}
		t = strings.TrimSpace(t[3:])
		if t == "" || strings.HasPrefix(t, "#") {
			continue
		}
		// strip trailing comment " // ..."
		if i := strings.Index(t, " // "); i >= 0 {
			t = strings.TrimSpace(t[:i])
		}
		kw := t
		rest := ""
		if i := strings.IndexAny(t, " \t"); i >= 0 {
			kw = t[:i]
			rest = strings.TrimSpace(t[i+1:])
		}
		pos := fmt.Sprintf("%s:%d", filepath.Base(path), n+1)
		if !clauseKeywords[kw] {
			// continuation
			if len(out) == 0 {
				return nil, fmt.Errorf("%s: continuation without clause", pos)
			}
			out[len(out)-1].rest += " " + t
			continue
		}
		out = append(out, rawLine{kw, rest, pos})
	}
	return out, nil
}

func parseParams(s string) []SpecParam {
	var ps []SpecParam
	s = strings.TrimSpace(s)
	if s == "" {
		return nil
	}
	for _, part := range strings.Split(s, ",") {
		part = strings.TrimSpace(part)
		i := strings.IndexAny(part, " \t")
		if i < 0 {
			panic("bad parameter " + part)
		}
		ps = append(ps, SpecParam{part[:i], strings.TrimSpace(part[i+1:])})
	}
	// Go-style "a, b []int": fill types backwards
	return ps
}

func parseParamsLoose(s string) []SpecParam {
	var ps []SpecParam
	s = strings.TrimSpace(s)
	if s == "" {
		return nil
	}
	for _, part := range strings.Split(s, ",") {
		part = strings.TrimSpace(part)
		i := strings.IndexAny(part, " \t")
		if i < 0 {
			ps = append(ps, SpecParam{part, ""})
		} else {
			ps = append(ps, SpecParam{part[:i], strings.TrimSpace(part[i+1:])})
		}
	}
	for i := len(ps) - 2; i >= 0; i-- {
		if ps[i].Type == "" {
			ps[i].Type = ps[i+1].Type
		}
	}
	return ps
}

func mkClause(kind, text, pos string) (*Clause, error) {
	c := &Clause{Kind: kind, Text: text, Line: pos}
	t := strings.TrimSpace(text)
	if strings.HasPrefix(t, "[") {
		if i := strings.Index(t, "]"); i > 0 {
			c.Name = t[1:i]
			t = strings.TrimSpace(t[i+1:])
		}
	}
	e, err := ParseExpr(t)
	if err != nil {
		return nil, fmt.Errorf("%s: %v", pos, err)
	}
	c.E = e
	c.Text = t
	return c, nil
}

func splitTop(s string, sep byte) []string {
	var out []string
	depth := 0
	last := 0
	for i := 0; i < len(s); i++ {
		switch s[i] {
		case '(', '[':
			depth++
		case ')', ']':
			depth--
		default:
			if s[i] == sep && depth == 0 {
				out = append(out, strings.TrimSpace(s[last:i]))
				last = i + 1
			}
		}
	}
	out = append(out, strings.TrimSpace(s[last:]))
	return out
}

// parseSig parses "name(params) ret" for spec functions / externs / lemmas.
func parseSig(s string) (name string, params []SpecParam, ret string, tail string) {
	i := strings.Index(s, "(")
	if i < 0 {
		panic("bad signature " + s)
	}
	// method keys such as pkg.(*T).M(params): skip the receiver parenthesis;
	// keys with a constant operand such as fmt.Fprintf["%d\t"](...): skip the bracket
	if br := strings.Index(s, "[\""); br >= 0 && br < i {
		if e := strings.Index(s[br:], "\"]("); e >= 0 {
			i = br + e + 2
		}
	} else if i > 0 && s[i-1] == '.' {
		if c := strings.Index(s[i:], ")."); c >= 0 {
			if j := strings.Index(s[i+c:], "("); j >= 0 {
				i = i + c + j
			}
		}
	}
	name = strings.TrimSpace(s[:i])
	depth := 0
	j := i
	for ; j < len(s); j++ {
		if s[j] == '(' {
			depth++
		} else if s[j] == ')' {
			depth--
			if depth == 0 {
				break
			}
		}
	}
	params = parseParamsLoose(s[i+1 : j])
	rest := strings.TrimSpace(s[j+1:])
	if k := strings.Index(rest, "="); k >= 0 && !strings.HasPrefix(rest[k:], "==") {
		ret = strings.TrimSpace(rest[:k])
		tail = strings.TrimSpace(rest[k+1:])
	} else {
		ret = rest
	}
	return
}

func LoadSpecFile(path, pkg string) (sf *SpecFile, err error) {
	lines, err := readContractLines(path)
	if err != nil {
		return nil, err
	}
	defer func() {
		if r := recover(); r != nil {
			err = fmt.Errorf("%s: %v", path, r)
		}
	}()
	sf = &SpecFile{Pkg: pkg, Funcs: map[string]*FuncSpec{}, Specs: map[string]*SpecFunc{}, Ghosts: map[string]*GhostDecl{}}
	var cur *FuncSpec
	var curLoop *LoopSpec
	var curLemma *Lemma
	must := func(c *Clause, err error) *Clause {
		if err != nil {
			panic(err)
		}
		return c
	}
	for _, l := range lines {
		switch l.kw {
		case "func", "extern":
			curLemma = nil
			curLoop = nil
			cur = &FuncSpec{Pkg: pkg, Opts: map[string]string{}, Line: l.pos}
			if l.kw == "extern" {
				cur.Extern = true
				name, params, ret, _ := parseSig(l.rest)
				cur.Key = name
				cur.Params = params
				ret = strings.TrimSpace(ret)
				if ret != "" {
					ret = strings.TrimPrefix(ret, "(")
					ret = strings.TrimSuffix(ret, ")")
					cur.Results = parseParamsLoose(ret)
				}
			} else {
				cur.Key = strings.TrimSpace(l.rest)
			}
			if _, dup := sf.Funcs[cur.Key]; dup {
				panic(l.pos + ": duplicate contract for " + cur.Key)
			}
			sf.Funcs[cur.Key] = cur
			sf.Order = append(sf.Order, cur.Key)
		case "spec", "pred", "opaque":
			cur, curLoop, curLemma = nil, nil, nil
			name, params, ret, body := parseSig(l.rest)
			f := &SpecFunc{Name: name, Params: params, Ret: ret, Line: l.pos}
			if l.kw == "pred" {
				f.Ret = "bool"
			}
			if l.kw == "opaque" {
				f.Opaque = true
			} else {
				e, err := ParseExpr(body)
				if err != nil {
					panic(fmt.Sprintf("%s: %v", l.pos, err))
				}
				f.Body = e
				f.Rec = exprCalls(e, name)
			}
			sf.Specs[name] = f
		case "ghostarray", "ghostval":
			cur, curLoop, curLemma = nil, nil, nil
			name, params, ret, _ := parseSig(l.rest)
			if len(params) != 1 {
				panic(l.pos + ": ghost declaration needs one carrier parameter")
			}
			sf.Ghosts[name] = &GhostDecl{Name: name, Param: params[0].Type, Elem: strings.TrimSpace(ret), Scalar: l.kw == "ghostval"}
		case "lemma":
			cur, curLoop = nil, nil
			name, params, _, _ := parseSig(l.rest)
			curLemma = &Lemma{Name: name, Params: params, By: "smt", Line: l.pos}
			sf.Lemmas = append(sf.Lemmas, curLemma)
		case "by":
			if curLemma == nil {
				panic(l.pos + ": 'by' outside lemma")
			}
			curLemma.By = l.rest
		case "pattern":
			if curLemma == nil {
				panic(l.pos + ": 'pattern' outside lemma")
			}
			for _, part := range splitTop(l.rest, ',') {
				e, err := ParseExpr(part)
				if err != nil {
					panic(fmt.Sprintf("%s: %v", l.pos, err))
				}
				curLemma.Pats = append(curLemma.Pats, e)
			}
		case "requires":
			c := must(mkClause("requires", l.rest, l.pos))
			if curLemma != nil {
				curLemma.Requires = append(curLemma.Requires, c)
			} else if cur != nil {
				cur.Requires = append(cur.Requires, c)
			} else {
				panic(l.pos + ": requires outside func/lemma")
			}
		case "ensures":
			c := must(mkClause("ensures", l.rest, l.pos))
			if curLemma != nil {
				curLemma.Ensures = append(curLemma.Ensures, c)
			} else if cur != nil {
				cur.Ensures = append(cur.Ensures, c)
			} else {
				panic(l.pos + ": ensures outside func/lemma")
			}
		case "panics":
			// "panics when <cond>"
			r := strings.TrimSpace(strings.TrimPrefix(l.rest, "when"))
			cur.Panics = append(cur.Panics, must(mkClause("panics", r, l.pos)))
		case "modifies":
			if strings.TrimSpace(l.rest) == "nothing" {
				break
			}
			if strings.TrimSpace(l.rest) == "anything" {
				cur.ModAll = true
				break
			}
			for _, part := range splitTop(l.rest, ',') {
				if strings.HasPrefix(part, "ghost ") {
					cur.ModGhost = append(cur.ModGhost, strings.TrimSpace(part[6:]))
					continue
				}
				e, err := ParseExpr(part)
				if err != nil {
					panic(fmt.Sprintf("%s: %v", l.pos, err))
				}
				cur.Modifies = append(cur.Modifies, e)
			}
		case "loop":
			curLoop = &LoopSpec{Key: strings.TrimSpace(l.rest), Opts: map[string]string{}}
			cur.Loops = append(cur.Loops, curLoop)
		case "invariant":
			if curLoop == nil {
				panic(l.pos + ": invariant outside loop")
			}
			curLoop.Invariants = append(curLoop.Invariants, must(mkClause("invariant", l.rest, l.pos)))
		case "decreases":
			c := &Clause{Kind: "decreases", Text: l.rest, Line: l.pos}
			for _, part := range splitTop(l.rest, ',') {
				e, err := ParseExpr(part)
				if err != nil {
					panic(fmt.Sprintf("%s: %v", l.pos, err))
				}
				c.Es = append(c.Es, e)
			}
			if curLoop != nil {
				curLoop.Decreases = c
			} else if cur != nil {
				cur.Decreases = c
			} else {
				panic(l.pos + ": decreases outside loop/func")
			}
		case "assert":
			// assert at <where>: expr
			r := l.rest
			if !strings.HasPrefix(r, "at ") {
				panic(l.pos + ": assert needs 'at <where>:'")
			}
			i := strings.Index(r, ":")
			at := strings.TrimSpace(r[3:i])
			c := must(mkClause("assert", r[i+1:], l.pos))
			cur.Asserts = append(cur.Asserts, &AssertSpec{At: at, C: c})
		case "use":
			if strings.HasPrefix(l.rest, "at exit ") {
				// use at exit lemma(args): instantiated in the state of every return
				if cur == nil || curLoop != nil || curLemma != nil {
					panic(l.pos + ": 'use at exit' belongs to a func block")
				}
				c := must(mkClause("use", strings.TrimPrefix(l.rest, "at exit "), l.pos))
				cur.ExitUses = append(cur.ExitUses, c)
				break
			}
			if strings.HasPrefix(l.rest, "at back ") {
				if curLoop == nil {
					panic(l.pos + ": 'use at back' belongs to a loop block")
				}
				c := must(mkClause("use", strings.TrimPrefix(l.rest, "at back "), l.pos))
				curLoop.BackUses = append(curLoop.BackUses, c)
				break
			}
			c := must(mkClause("use", l.rest, l.pos))
			if curLemma != nil {
				curLemma.Uses = append(curLemma.Uses, c)
			} else if curLoop != nil {
				curLoop.Uses = append(curLoop.Uses, c)
			} else if cur != nil {
				cur.Uses = append(cur.Uses, c)
			} else {
				panic(l.pos + ": use outside func/loop")
			}
		case "split":
			for _, part := range splitTop(l.rest, '|') {
				if strings.Contains(part, "||") {
					panic(l.pos + ": use single | between split cases")
				}
				if curLoop != nil {
					// loop-level case split: obligations inside the loop are solved per case of the
					// loop-head state (e.g. one case per value of a small counter)
					curLoop.Splits = append(curLoop.Splits, must(mkClause("split", part, l.pos)))
					continue
				}
				cur.Splits = append(cur.Splits, must(mkClause("split", part, l.pos)))
			}
		case "ghost":
			cur.Ghost = append(cur.Ghost, &Clause{Kind: "ghost", Text: l.rest, Line: l.pos})
		case "opt":
			kv := strings.SplitN(l.rest, "=", 2)
			v := "true"
			if len(kv) == 2 {
				v = strings.TrimSpace(kv[1])
			}
			if curLemma != nil {
				if curLemma.Opts == nil {
					curLemma.Opts = map[string]string{}
				}
				curLemma.Opts[strings.TrimSpace(kv[0])] = v
			} else if curLoop != nil {
				curLoop.Opts[strings.TrimSpace(kv[0])] = v
			} else {
				cur.Opts[strings.TrimSpace(kv[0])] = v
			}
		case "end":
			curLoop = nil
		}
	}
	return sf, nil
}

func exprCalls(e *Expr, name string) bool {
	if e == nil {
		return false
	}
	if e.Kind == "call" && e.Name == name {
		return true
	}
	for _, a := range e.Args {
		if exprCalls(a, name) {
			return true
		}
	}
	return exprCalls(e.Lo, name) || exprCalls(e.Hi, name)
}
