package main

// Symbolic execution of go/ssa (naive form) into verification conditions.

import (
	"fmt"
	"go/ast"
	"go/constant"
	"go/token"
	"go/types"
	"math/big"
	"sort"
	"strconv"
	"strings"

	"golang.org/x/tools/go/ssa"
)

const maxLenLog = 48

var maxLenBig = pow2big(maxLenLog)

func (v *FnVC) allocKey(a *ssa.Alloc) string {
	n := a.Comment
	if n == "" {
		n = "tmp"
	}
	return sanitize(n) + "_" + a.Name()
}

// classify allocs: scalar locals become SMT variables; everything else lives
// in a heap.
func (v *FnVC) classifyAllocs() {
	for _, b := range v.fn.Blocks {
		for _, in := range b.Instrs {
			a, ok := in.(*ssa.Alloc)
			if !ok {
				continue
			}
			et := a.Type().(*types.Pointer).Elem()
			switch et.Underlying().(type) {
			case *types.Array:
				continue // heap array
			case *types.Struct:
				if onlyFieldUses(a) && flatStruct(et) {
					v.lstruct[a] = true
					v.locals[a] = v.allocKey(a)
				}
				continue
			}
			if onlyLoadStore(a) {
				v.locals[a] = v.allocKey(a)
			}
		}
	}
}

func flatStruct(t types.Type) bool {
	st := t.Underlying().(*types.Struct)
	for i := 0; i < st.NumFields(); i++ {
		s := func() (s string) {
			defer func() {
				if recover() != nil {
					s = "BAD"
				}
			}()
			return sortOf(st.Field(i).Type())
		}()
		if s == "STRUCT" || s == "BAD" || s == "TUPLE" {
			return false
		}
	}
	return true
}

func onlyLoadStore(a ssa.Value) bool {
	for _, r := range *a.Referrers() {
		switch r := r.(type) {
		case *ssa.DebugRef:
		case *ssa.UnOp:
			if r.Op != token.MUL {
				return false
			}
		case *ssa.Store:
			if r.Val == a {
				return false
			}
		default:
			return false
		}
	}
	return true
}

func onlyFieldUses(a ssa.Value) bool {
	for _, r := range *a.Referrers() {
		switch r := r.(type) {
		case *ssa.DebugRef:
		case *ssa.FieldAddr:
			if !onlyLoadStore(r) {
				return false
			}
		case *ssa.UnOp:
			if r.Op != token.MUL {
				return false
			}
		case *ssa.Store:
			if r.Val == a {
				return false
			}
		default:
			return false
		}
	}
	return true
}

// ---------- values ----------

func (v *FnVC) constVal(c *ssa.Const, st *State) Val {
	t := c.Type()
	if c.Value == nil {
		switch sortOf(t) {
		case SSlice:
			return Val{T: NilSlice, Typ: t}
		case SInt:
			return Val{T: IntLit(0), Typ: t}
		case SBool:
			return Val{T: False, Typ: t}
		}
		unsupported("zero constant of type %s", t)
	}
	switch c.Value.Kind() {
	case constant.Bool:
		return Val{T: BoolLit(constant.BoolVal(c.Value)), Typ: t}
	case constant.Int:
		bi, ok := new(big.Int).SetString(c.Value.ExactString(), 10)
		if !ok {
			unsupported("integer constant %s", c.Value)
		}
		return Val{T: BigLit(bi), Typ: t}
	case constant.String:
		return v.stringLit(constant.StringVal(c.Value), t, st)
	case constant.Float:
		if isFloat(t) {
			return Val{T: v.fresh("float", SInt), Typ: t}
		}
		if bi, ok := new(big.Int).SetString(c.Value.ExactString(), 10); ok {
			return Val{T: BigLit(bi), Typ: t}
		}
	}
	unsupported("constant %s", c)
	return Val{}
}

func (v *FnVC) stringLit(s string, t types.Type, st *State) Val {
	name := "strlit_" + strconv.Itoa(len(s)) + "_" + sanitize(s)
	if len(name) > 40 {
		name = name[:40] + "_" + strconv.Itoa(int(hashString(s)%100000))
	}
	_, seen := v.declared[name]
	ref := v.declare(name, SInt)
	sl := MkSlice(ref, IntLit(0), IntLit(int64(len(s))), IntLit(int64(len(s))))
	if !seen {
		v.assume(True, And(Le(IntLit(1), ref), Lt(ref, v.entry.alloc)), "strlit")
		if len(s) <= 64 {
			h := v.heap(v.entry, sliceHeap(types.Typ[types.Uint8]), HeapSort(SInt))
			arr := Select(h, ref)
			for i := 0; i < len(s); i++ {
				v.assume(True, Eq(Select(arr, IntLit(int64(i))), IntLit(int64(s[i]))), "strlit")
			}
		}
	}
	return Val{T: sl, Typ: t}
}

func hashString(s string) uint32 {
	var h uint32 = 2166136261
	for i := 0; i < len(s); i++ {
		h ^= uint32(s[i])
		h *= 16777619
	}
	return h
}

func (v *FnVC) value(x ssa.Value, st *State) Val {
	switch x := x.(type) {
	case *ssa.Const:
		return v.constVal(x, st)
	case *ssa.Function:
		return Val{T: v.funcID(x), Typ: x.Type(), Fn: x}
	case *ssa.Global:
		return Val{Typ: x.Type(), Addr: &Addr{Kind: "global", Key: x.Name(), Typ: x.Type().(*types.Pointer).Elem()}, T: nil}
	case *ssa.Builtin:
		unsupported("builtin %s used as value", x.Name())
	}
	if r, ok := v.regs[x]; ok {
		return r
	}
	panic(fmt.Sprintf("value %s (%T) has no definition (block order?)", x.Name(), x))
}

func (v *FnVC) funcID(f *ssa.Function) *Term {
	name := "fn_" + sanitize(f.String())
	_, seen := v.declared[name]
	t := v.declare(name, SInt)
	if !seen {
		v.assume(True, Ge(t, IntLit(1)), "fn")
	}
	return t
}

// globalVal: value of a package-level variable, from its initialiser in the
// current source (assumption: nothing outside init writes it — frame engine).
func (v *FnVC) globalVal(st *State, gv *types.Var) Val {
	name := "glob_" + sanitize(gv.Pkg().Name()+"_"+gv.Name())
	if sortOf(gv.Type()) != SSlice {
		unsupported("global %s of type %s", gv.Name(), gv.Type())
	}
	_, seen := v.declared[name]
	ref := v.declare(name, SInt)
	lit := v.g.globalInit(gv)
	if lit == nil {
		unsupported("global %s has no literal initialiser", gv.Name())
	}
	n := int64(len(lit.Elts))
	sl := MkSlice(ref, IntLit(0), IntLit(n), IntLit(n))
	if !seen {
		v.assume(True, And(Le(IntLit(1), ref), Lt(ref, v.entry.alloc)), "global")
		v.g.noteAssumption("package-level table " + gv.Pkg().Name() + "." + gv.Name() + " holds its source initialiser (no store outside init: checked by the C19 frame engine)")
		et := gv.Type().Underlying().(*types.Slice).Elem()
		h, _ := v.sliceHeapTerm(v.entry, et)
		arr := Select(h, ref)
		for i, e := range lit.Elts {
			switch sortOf(et) {
			case SInt:
				val := v.g.constExpr(gv.Pkg(), e)
				if val == nil {
					unsupported("global %s element %d is not constant", gv.Name(), i)
				}
				v.assume(True, Eq(Select(arr, IntLit(int64(i))), BigLit(val)), "global")
			case SSlice:
				inner, ok := e.(*ast.CompositeLit)
				if !ok {
					unsupported("global %s element %d", gv.Name(), i)
				}
				iref := v.declare(fmt.Sprintf("%s_%d", name, i), SInt)
				v.assume(True, And(Le(IntLit(1), iref), Lt(iref, v.entry.alloc), Ne(iref, ref)), "global")
				m := int64(len(inner.Elts))
				v.assume(True, Eq(Select(arr, IntLit(int64(i))), MkSlice(iref, IntLit(0), IntLit(m), IntLit(m))), "global")
				iet := et.Underlying().(*types.Slice).Elem()
				ih, _ := v.sliceHeapTerm(v.entry, iet)
				iarr := Select(ih, iref)
				for j, ie := range inner.Elts {
					val := v.g.constExpr(gv.Pkg(), ie)
					if val == nil {
						unsupported("global %s element %d,%d is not constant", gv.Name(), i, j)
					}
					v.assume(True, Eq(Select(iarr, IntLit(int64(j))), BigLit(val)), "global")
				}
			default:
				unsupported("global %s element type", gv.Name())
			}
		}
	}
	return Val{T: sl, Typ: gv.Type()}
}

// ---------- addresses ----------

func (v *FnVC) fieldAddrOf(base Val, st types.Type, f *types.Var) *Addr {
	if base.Addr != nil && base.Addr.Kind == "local" {
		return &Addr{Kind: "local", Key: base.Addr.Key + "." + f.Name(), Typ: f.Type()}
	}
	return &Addr{Kind: "field", Heap: fieldHeap(st, f.Name()), Ref: base.T, Typ: f.Type()}
}

func (v *FnVC) loadAddr(st *State, a *Addr) Val {
	switch a.Kind {
	case "local":
		if s, ok := a.Typ.Underlying().(*types.Struct); ok {
			fs := map[string]Val{}
			for i := 0; i < s.NumFields(); i++ {
				f := s.Field(i)
				fs[f.Name()] = v.loadAddr(st, &Addr{Kind: "local", Key: a.Key + "." + f.Name(), Typ: f.Type()})
			}
			return Val{Typ: a.Typ, Fields: fs}
		}
		t, ok := st.vars[a.Key]
		if !ok {
			t = zeroTerm(a.Typ)
		}
		return Val{T: t, Typ: a.Typ}
	case "elem":
		return Val{T: Select(v.readArray(st, a.Typ, a.Ref), a.Idx), Typ: a.Typ}
	case "field", "cell":
		if _, ok := a.Typ.Underlying().(*types.Struct); ok {
			unsupported("load of a whole struct through a pointer")
		}
		h := v.heap(st, a.Heap, ArrSort(sortOf(a.Typ)))
		r := Select(h, a.Ref)
		v.noteEntryLoad(h, r)
		return Val{T: r, Typ: a.Typ}
	case "global":
		obj := v.fn.Pkg.Pkg.Scope().Lookup(a.Key)
		gv, ok := obj.(*types.Var)
		if !ok {
			unsupported("global %s", a.Key)
		}
		return v.globalVal(st, gv)
	}
	panic("bad addr kind " + a.Kind)
}

func (v *FnVC) storeAddr(st *State, a *Addr, val Val, pos token.Pos) {
	switch a.Kind {
	case "local":
		if val.Fields != nil {
			for name, f := range val.Fields {
				v.storeAddr(st, &Addr{Kind: "local", Key: a.Key + "." + name, Typ: f.Typ}, f, pos)
			}
			return
		}
		if val.T == nil {
			unsupported("store of an untracked value into %s", a.Key)
		}
		st.vars[a.Key] = val.T
	case "elem":
		h := v.heap(st, a.Heap, HeapSort(sortOf(a.Typ)))
		v.frameCheck("array", a.Heap, a.Ref, pos)
		inner := v.define("arr_"+a.Heap, Store(Select(h, a.Ref), a.Idx, val.T))
		st.heaps[a.Heap] = v.define(a.Heap, Store(h, a.Ref, inner))
	case "field", "cell":
		h := v.heap(st, a.Heap, ArrSort(sortOf(a.Typ)))
		v.frameCheck(a.Kind, a.Heap, a.Ref, pos)
		st.heaps[a.Heap] = v.define(a.Heap, Store(h, a.Ref, val.T))
	case "global":
		unsupported("store to global %s", a.Key)
	default:
		panic("bad addr kind")
	}
}

// frameCheck: a store must hit memory allocated by this call or named in modifies.
func (v *FnVC) frameCheck(kind, heap string, ref *Term, pos token.Pos) {
	v.loopFrameCheck(heap, ref, nil, pos)
	if v.modAll {
		return
	}
	goal := Ge(ref, v.entry.alloc)
	var alts []*Term
	alts = append(alts, goal)
	for _, m := range v.mods {
		if m.heap == heap || (m.kind == "struct" && strings.HasPrefix(heap, m.heap)) {
			alts = append(alts, Eq(ref, m.ref))
		}
	}
	v.oblige("frame", fmt.Sprintf("store-frame#%d", v.ord("frame")), v.curGuard, Or(alts...), v.posOf(pos),
		"store targets memory allocated by this call or listed in modifies")
}

// ---------- instruction execution ----------

func (v *FnVC) execInstr(in ssa.Instruction, st *State) {
	switch in := in.(type) {
	case *ssa.DebugRef:
	case *ssa.Alloc:
		v.execAlloc(in, st)
	case *ssa.Store:
		addr := v.value(in.Addr, st)
		val := v.value(in.Val, st)
		if addr.Addr != nil {
			v.storeAddr(st, addr.Addr, val, in.Pos())
			return
		}
		// pointer value
		pt := in.Addr.Type().Underlying().(*types.Pointer)
		v.nilCheck(addr.T, in.Pos())
		if _, ok := pt.Elem().Underlying().(*types.Struct); ok {
			unsupported("whole-struct store through pointer at %s", v.posOf(in.Pos()))
		}
		v.storeAddr(st, &Addr{Kind: "cell", Heap: cellHeap(pt.Elem()), Ref: addr.T, Typ: pt.Elem()}, val, in.Pos())
	case *ssa.UnOp:
		v.execUnOp(in, st)
	case *ssa.BinOp:
		v.regs[in] = v.execBinOp(in, st)
	case *ssa.Convert:
		v.execConvert(in, st)
	case *ssa.ChangeType:
		x := v.value(in.X, st)
		x.Typ = in.Type()
		v.regs[in] = x
	case *ssa.MakeSlice:
		ln := v.value(in.Len, st).T
		cp := v.value(in.Cap, st).T
		n := v.ord("make")
		v.oblige("make", fmt.Sprintf("make#%d", n), v.curGuard, And(Le(IntLit(0), ln), Le(ln, cp)), v.posOf(in.Pos()), "make: 0 <= len <= cap")
		v.assume(v.curGuard, Le(cp, BigLit(maxLenBig)), "A5:make-size")
		et := in.Type().Underlying().(*types.Slice).Elem()
		ref := v.newArray(st, et, "make")
		v.regs[in] = Val{T: MkSlice(ref, IntLit(0), ln, cp), Typ: in.Type()}
	case *ssa.IndexAddr:
		v.execIndexAddr(in, st)
	case *ssa.Index:
		x := v.value(in.X, st)
		i := v.value(in.Index, st).T
		if isString(in.X.Type()) {
			n := v.ord("index")
			v.oblige("index", fmt.Sprintf("index#%d", n), v.curGuard, And(Le(IntLit(0), i), Lt(i, SLen(x.T))), v.posOf(in.Pos()), "string index in range")
			r := Select(v.readArray(st, types.Typ[types.Uint8], SRef(x.T)), Add(SOff(x.T), i))
			v.assume(v.curGuard, v.typeInv(r, types.Typ[types.Uint8], st), "type")
			v.regs[in] = Val{T: r, Typ: in.Type()}
			return
		}
		unsupported("index of array value at %s", v.posOf(in.Pos()))
	case *ssa.FieldAddr:
		x := v.value(in.X, st)
		stt := in.X.Type().Underlying().(*types.Pointer).Elem()
		f := stt.Underlying().(*types.Struct).Field(in.Field)
		if x.Addr == nil {
			v.nilCheck(x.T, in.Pos())
		} else if x.Addr.Kind != "local" {
			unsupported("nested struct field address at %s", v.posOf(in.Pos()))
		}
		v.regs[in] = Val{Typ: in.Type(), Addr: v.fieldAddrOf(x, stt, f)}
	case *ssa.Field:
		x := v.value(in.X, st)
		if x.Fields == nil {
			unsupported("field of untracked struct value at %s", v.posOf(in.Pos()))
		}
		f := in.X.Type().Underlying().(*types.Struct).Field(in.Field)
		v.regs[in] = x.Fields[f.Name()]
	case *ssa.Slice:
		v.execSlice(in, st)
	case *ssa.Phi:
		// handled at block entry
	case *ssa.Extract:
		t := v.value(in.Tuple, st)
		if in.Index >= len(t.Tuple) {
			panic("extract out of range")
		}
		v.regs[in] = t.Tuple[in.Index]
	case *ssa.Call:
		v.execCall(in, st)
	case *ssa.MakeInterface:
		x := v.value(in.X, st)
		if _, isPtr := in.X.Type().Underlying().(*types.Pointer); isPtr && x.T != nil {
			// an interface holding a pointer is represented by the pointer itself
			v.regs[in] = Val{T: x.T, Typ: in.Type(), Tuple: []Val{x}}
			return
		}
		// opaque non-nil interface value; remember the dynamic value when scalar
		t := v.fresh("iface", SInt)
		v.assume(v.curGuard, Ge(t, IntLit(1)), "iface")
		v.regs[in] = Val{T: t, Typ: in.Type(), Tuple: []Val{x}}
	case *ssa.ChangeInterface:
		x := v.value(in.X, st)
		x.Typ = in.Type()
		v.regs[in] = x
	case *ssa.MakeClosure:
		fnv := in.Fn.(*ssa.Function)
		t := v.fresh("closure", SInt)
		v.assume(v.curGuard, Ge(t, IntLit(1)), "closure")
		v.regs[in] = Val{T: t, Typ: in.Type(), Fn: fnv}
	case *ssa.RunDefers:
	case *ssa.Defer, *ssa.Go, *ssa.Select, *ssa.Send, *ssa.MakeChan, *ssa.MakeMap, *ssa.MapUpdate, *ssa.Lookup, *ssa.Range, *ssa.Next:
		unsupported("%T at %s", in, v.posOf(in.Pos()))
	case *ssa.TypeAssert:
		unsupported("type assertion at %s", v.posOf(in.Pos()))
	case *ssa.If, *ssa.Jump, *ssa.Return, *ssa.Panic:
		// terminators handled by the block driver
	default:
		unsupported("instruction %T at %s", in, v.posOf(in.Pos()))
	}
}

func (v *FnVC) nilCheck(p *Term, pos token.Pos) {
	n := v.ord("nil")
	v.oblige("nil", fmt.Sprintf("nil#%d", n), v.curGuard, Ne(p, IntLit(0)), v.posOf(pos), "pointer is not nil")
}

func (v *FnVC) newRef(st *State, what string) *Term {
	// keep "alloc@0 + n" structure visible: fresh refs are then syntactically
	// distinct from each other and from memory that existed at entry
	ref := st.alloc
	st.alloc = AddC(st.alloc, 1)
	return ref
}

func (v *FnVC) constArr(sort string, zero *Term) *Term {
	return App("(as const "+sort+")", sort, zero)
}

func (v *FnVC) newArray(st *State, et types.Type, what string) *Term {
	ref := v.newRef(st, what)
	h, name := v.sliceHeapTerm(st, et)
	es := sortOf(et)
	st.heaps[name] = v.define(name, Store(h, ref, v.constArr(ArrSort(es), zeroTerm(et))))
	return ref
}

func (v *FnVC) execAlloc(a *ssa.Alloc, st *State) {
	et := a.Type().(*types.Pointer).Elem()
	if key, ok := v.locals[a]; ok {
		if v.lstruct[a] {
			s := et.Underlying().(*types.Struct)
			for i := 0; i < s.NumFields(); i++ {
				st.vars[key+"."+s.Field(i).Name()] = zeroTerm(s.Field(i).Type())
			}
		} else {
			if sortOf(et) == "STRUCT" {
				unsupported("local of type %s", et)
			}
			st.vars[key] = zeroTerm(et)
		}
		v.regs[a] = Val{Typ: a.Type(), Addr: &Addr{Kind: "local", Key: key, Typ: et, Alloc: a}}
		return
	}
	switch u := et.Underlying().(type) {
	case *types.Array:
		ref := v.newArray(st, u.Elem(), "arr")
		v.regs[a] = Val{T: ref, Typ: a.Type()}
		return
	case *types.Struct:
		ref := v.newRef(st, "obj")
		for i := 0; i < u.NumFields(); i++ {
			f := u.Field(i)
			fs := sortOf(f.Type())
			if fs == "STRUCT" {
				unsupported("struct %s with nested struct/array field %s", et, f.Name())
			}
			hn := fieldHeap(et, f.Name())
			h := v.heap(st, hn, ArrSort(fs))
			st.heaps[hn] = v.define(hn, Store(h, ref, zeroTerm(f.Type())))
		}
		v.regs[a] = Val{T: ref, Typ: a.Type()}
		return
	}
	// escaping scalar: a cell
	ref := v.newRef(st, "cell")
	hn := cellHeap(et)
	h := v.heap(st, hn, ArrSort(sortOf(et)))
	st.heaps[hn] = v.define(hn, Store(h, ref, zeroTerm(et)))
	v.regs[a] = Val{T: ref, Typ: a.Type()}
}

func (v *FnVC) execUnOp(in *ssa.UnOp, st *State) {
	x := v.value(in.X, st)
	switch in.Op {
	case token.MUL:
		var r Val
		if x.Addr != nil {
			r = v.loadAddr(st, x.Addr)
			if x.Addr.Kind != "local" && r.T != nil {
				v.assume(v.curGuard, v.typeInv(r.T, r.Typ, st), "type")
			}
		} else {
			pt := in.X.Type().Underlying().(*types.Pointer)
			v.nilCheck(x.T, in.Pos())
			if stt, ok := pt.Elem().Underlying().(*types.Struct); ok {
				if !flatStruct(pt.Elem()) {
					unsupported("whole-struct load through pointer at %s", v.posOf(in.Pos()))
				}
				fields := map[string]Val{}
				for k := 0; k < stt.NumFields(); k++ {
					f := stt.Field(k)
					fv := v.loadAddr(st, &Addr{Kind: "field", Heap: fieldHeap(pt.Elem(), f.Name()), Ref: x.T, Typ: f.Type()})
					v.assume(v.curGuard, v.typeInv(fv.T, f.Type(), st), "type")
					fields[f.Name()] = fv
				}
				v.regs[in] = Val{Typ: in.Type(), Fields: fields}
				return
			}
			r = v.loadAddr(st, &Addr{Kind: "cell", Heap: cellHeap(pt.Elem()), Ref: x.T, Typ: pt.Elem()})
			v.assume(v.curGuard, v.typeInv(r.T, r.Typ, st), "type")
		}
		r.Typ = in.Type()
		v.regs[in] = r
	case token.NOT:
		v.regs[in] = Val{T: Not(x.T), Typ: in.Type()}
	case token.SUB:
		ii, _ := basicInt(in.Type())
		r := Neg(x.T)
		v.regs[in] = Val{T: v.arith(r, ii, in.Pos(), "negation"), Typ: in.Type()}
	case token.XOR:
		ii, ok := basicInt(in.Type())
		if !ok {
			unsupported("^ on %s", in.Type())
		}
		if ii.signed {
			v.regs[in] = Val{T: Sub(IntLit(-1), x.T), Typ: in.Type()}
		} else {
			v.regs[in] = Val{T: Sub(BigLit(ii.max()), x.T), Typ: in.Type()}
		}
	default:
		unsupported("unary %s", in.Op)
	}
}

// arith applies the machine-integer discipline to a mathematical result.
func (v *FnVC) arith(r *Term, ii intInfo, pos token.Pos, what string) *Term {
	if lit, ok := r.IntVal(); ok && lit.Cmp(ii.min()) >= 0 && lit.Cmp(ii.max()) <= 0 {
		return r
	}
	if !ii.signed {
		return v.define("u", EMod(r, BigLit(pow2big(ii.bits))))
	}
	if v.spec != nil && v.spec.Opts["overflow"] == "wrap" {
		half := BigLit(pow2big(ii.bits - 1))
		return v.define("w", Sub(EMod(Add(r, half), BigLit(pow2big(ii.bits))), half))
	}
	n := v.ord("overflow")
	if v.g.wrapSites[v.fn][n] {
		// the no-overflow obligation of this site failed earlier in this run: fall back to
		// Go's defined wrap-around semantics for it (nothing is assumed about the result)
		half := BigLit(pow2big(ii.bits - 1))
		return v.define("w", Sub(EMod(Add(r, half), BigLit(pow2big(ii.bits))), half))
	}
	r = v.define("a", r)
	v.oblige("overflow", fmt.Sprintf("overflow#%d", n), v.curGuard,
		And(Le(BigLit(ii.min()), r), Le(r, BigLit(ii.max()))), v.posOf(pos), "signed "+what+" does not overflow")
	return r
}

func (v *FnVC) execBinOp(in *ssa.BinOp, st *State) Val {
	x := v.value(in.X, st)
	y := v.value(in.Y, st)
	typ := in.Type()
	switch in.Op {
	case token.EQL, token.NEQ:
		var r *Term
		switch {
		case x.T == nil || y.T == nil:
			unsupported("comparison of untracked values at %s", v.posOf(in.Pos()))
		case x.T.Sort == SSlice && !isString(in.X.Type()):
			// slice == nil
			if y.T == NilSlice || y.T.String() == NilSlice.String() {
				r = Eq(SRef(x.T), IntLit(0))
			} else if x.T.String() == NilSlice.String() {
				r = Eq(SRef(y.T), IntLit(0))
			} else {
				unsupported("slice comparison")
			}
		case isString(in.X.Type()):
			r = v.stringEq(x, y, st)
		default:
			r = Eq(x.T, y.T)
		}
		if in.Op == token.NEQ {
			r = Not(r)
		}
		return Val{T: r, Typ: typ}
	case token.LSS, token.LEQ, token.GTR, token.GEQ:
		if isFloat(in.X.Type()) {
			return Val{T: v.fresh("fcmp", SBool), Typ: typ}
		}
		if isString(in.X.Type()) {
			unsupported("string ordering at %s", v.posOf(in.Pos()))
		}
		op := map[token.Token]string{token.LSS: "<", token.LEQ: "<=", token.GTR: ">", token.GEQ: ">="}[in.Op]
		return Val{T: Cmp(op, x.T, y.T), Typ: typ}
	}
	if isBool(typ) {
		switch in.Op {
		case token.AND, token.LAND:
			return Val{T: And(x.T, y.T), Typ: typ}
		case token.OR, token.LOR:
			return Val{T: Or(x.T, y.T), Typ: typ}
		}
	}
	if isString(typ) && in.Op == token.ADD {
		return v.stringConcat(x, y, st, typ)
	}
	if isFloat(typ) {
		return Val{T: v.fresh("float", SInt), Typ: typ}
	}
	ii, ok := basicInt(typ)
	if !ok {
		unsupported("binary %s on %s", in.Op, typ)
	}
	switch in.Op {
	case token.ADD, token.SUB:
		r := Add(x.T, y.T)
		if in.Op == token.SUB {
			r = Sub(x.T, y.T)
		}
		if ii.signed && v.isWrapCounter(in.X) {
			// cached counters named in `opt wrapcounters=`: modelled with wrap-around, no claim made
			half := BigLit(pow2big(ii.bits - 1))
			return Val{T: v.define("w", Sub(EMod(Add(r, half), BigLit(pow2big(ii.bits))), half)), Typ: typ}
		}
		what := "addition"
		if in.Op == token.SUB {
			what = "subtraction"
		}
		return Val{T: v.arith(r, ii, in.Pos(), what), Typ: typ}
	case token.MUL:
		return Val{T: v.arith(Mul(x.T, y.T), ii, in.Pos(), "multiplication"), Typ: typ}
	case token.QUO, token.REM:
		n := v.ord("div")
		v.oblige("div", fmt.Sprintf("div#%d", n), v.curGuard, Ne(y.T, IntLit(0)), v.posOf(in.Pos()), "divisor is not zero")
		var r *Term
		if ii.signed {
			if in.Op == token.QUO {
				r = GoDiv(x.T, y.T)
				// MinInt / -1 overflows; covered by arith
				r = v.arith(r, ii, in.Pos(), "division")
			} else {
				r = GoMod(x.T, y.T)
			}
		} else {
			if in.Op == token.QUO {
				r = EDiv(x.T, y.T)
			} else {
				r = EMod(x.T, y.T)
			}
		}
		return Val{T: v.define("q", r), Typ: typ}
	case token.SHL, token.SHR:
		// shift count
		cnt := y.T
		if cii, ok := basicInt(in.Y.Type()); ok && cii.signed {
			if lit, isLit := cnt.IntVal(); !isLit || lit.Sign() < 0 {
				n := v.ord("shift")
				v.oblige("shift", fmt.Sprintf("shift#%d", n), v.curGuard, Ge(cnt, IntLit(0)), v.posOf(in.Pos()), "shift count is non-negative")
			}
		}
		var p *Term
		if lit, ok := cnt.IntVal(); ok {
			if lit.Cmp(big.NewInt(int64(ii.bits))) >= 0 {
				if in.Op == token.SHL || !ii.signed {
					return Val{T: IntLit(0), Typ: typ}
				}
				return Val{T: Ite(Lt(x.T, IntLit(0)), IntLit(-1), IntLit(0)), Typ: typ}
			}
			p = BigLit(pow2big(uint(lit.Int64())))
		} else {
			v.g.needPow2 = true
			p = App("pow2", SInt, cnt)
		}
		if in.Op == token.SHL {
			r := Mul(x.T, p)
			if ii.signed {
				half := BigLit(pow2big(ii.bits - 1))
				return Val{T: v.define("shl", Sub(EMod(Add(r, half), BigLit(pow2big(ii.bits))), half)), Typ: typ}
			}
			return Val{T: v.define("shl", EMod(r, BigLit(pow2big(ii.bits)))), Typ: typ}
		}
		return Val{T: v.define("shr", EDiv(x.T, p)), Typ: typ}
	case token.AND, token.OR, token.XOR, token.AND_NOT:
		if in.Op == token.OR || in.Op == token.XOR {
			// (a << k) | b with b narrower than k bits is a + b exactly
			if sh, ok := in.X.(*ssa.BinOp); ok && sh.Op == token.SHL {
				if kc, ok := sh.Y.(*ssa.Const); ok && kc.Value != nil {
					if k, ok := new(big.Int).SetString(kc.Value.ExactString(), 10); ok {
						if cv, ok := in.Y.(*ssa.Convert); ok {
							if fi, ok := basicInt(cv.X.Type()); ok && !fi.signed && int64(fi.bits) <= k.Int64() {
								return Val{T: v.define("shlor", Add(x.T, y.T)), Typ: typ}
							}
						}
					}
				}
			}
		}
		return Val{T: v.bitop(in.Op, x.T, y.T, ii, in.Pos()), Typ: typ}
	}
	unsupported("binary op %s", in.Op)
	return Val{}
}

// bitop: masks by constants are linear; 8-bit operands are expanded bitwise;
// wider operands use an uninterpreted function with sound bounds.
func (v *FnVC) bitop(op token.Token, x, y *Term, ii intInfo, pos token.Pos) *Term {
	isMask := func(t *Term) (uint, bool) {
		lit, ok := t.IntVal()
		if !ok || lit.Sign() < 0 {
			return 0, false
		}
		p := new(big.Int).Add(lit, big.NewInt(1))
		if p.BitLen() > 0 && new(big.Int).And(p, lit).Sign() == 0 {
			return uint(p.BitLen() - 1), true
		}
		return 0, false
	}
	if op == token.AND {
		if k, ok := isMask(y); ok {
			return v.define("and", EMod(x, BigLit(pow2big(k))))
		}
		if k, ok := isMask(x); ok {
			return v.define("and", EMod(y, BigLit(pow2big(k))))
		}
	}
	if ii.bits == 8 && !ii.signed {
		var sum *Term = IntLit(0)
		for b := uint(0); b < 8; b++ {
			xb := EMod(EDiv(x, BigLit(pow2big(b))), IntLit(2))
			yb := EMod(EDiv(y, BigLit(pow2big(b))), IntLit(2))
			var bit *Term
			switch op {
			case token.AND:
				bit = And(Eq(xb, IntLit(1)), Eq(yb, IntLit(1)))
			case token.OR:
				bit = Or(Eq(xb, IntLit(1)), Eq(yb, IntLit(1)))
			case token.XOR:
				bit = Ne(xb, yb)
			case token.AND_NOT:
				bit = And(Eq(xb, IntLit(1)), Eq(yb, IntLit(0)))
			}
			sum = Add(sum, Ite(bit, BigLit(pow2big(b)), IntLit(0)))
		}
		return v.define("bit8", sum)
	}
	name := map[token.Token]string{token.AND: "int_and", token.OR: "int_or", token.XOR: "int_xor", token.AND_NOT: "int_andnot"}[op]
	v.g.needBitFns = true
	r := v.define(name, App(name, SInt, x, y))
	nonneg := And(Ge(x, IntLit(0)), Ge(y, IntLit(0)))
	switch op {
	case token.AND:
		v.assume(v.curGuard, Implies(nonneg, And(Ge(r, IntLit(0)), Le(r, x), Le(r, y))), "bits")
	case token.OR:
		v.assume(v.curGuard, Implies(nonneg, And(Ge(r, x), Ge(r, y), Le(r, Add(x, y)))), "bits")
	case token.XOR:
		v.assume(v.curGuard, Implies(nonneg, And(Ge(r, IntLit(0)), Le(r, Add(x, y)))), "bits")
	case token.AND_NOT:
		v.assume(v.curGuard, Implies(nonneg, And(Ge(r, IntLit(0)), Le(r, x))), "bits")
	}
	v.assume(v.curGuard, And(Le(BigLit(ii.min()), r), Le(r, BigLit(ii.max()))), "bits")
	return r
}

func (v *FnVC) stringEq(x, y Val, st *State) *Term {
	// comparison with a literal of known length: length and bytes
	h := v.heap(st, sliceHeap(types.Typ[types.Uint8]), HeapSort(SInt))
	ly, ok := SLen(y.T).IntVal()
	other := x
	if !ok {
		ly, ok = SLen(x.T).IntVal()
		other = y
		x, y = y, x
	}
	_ = other
	if ok && ly.Int64() <= 16 {
		conj := []*Term{Eq(SLen(x.T), SLen(y.T))}
		for i := int64(0); i < ly.Int64(); i++ {
			conj = append(conj, Eq(Select(Select(h, SRef(x.T)), AddC(SOff(x.T), i)), Select(Select(h, SRef(y.T)), AddC(SOff(y.T), i))))
		}
		return And(conj...)
	}
	// general: extensional equality over the length
	freshCounter++
	k := Var(fmt.Sprintf("se?%d", freshCounter), SInt)
	body := Eq(Select(Select(h, SRef(x.T)), Add(SOff(x.T), k)), Select(Select(h, SRef(y.T)), Add(SOff(y.T), k)))
	return And(Eq(SLen(x.T), SLen(y.T)), Forall([]*Term{k}, Implies(And(Le(IntLit(0), k), Lt(k, SLen(x.T))), body)))
}

func (v *FnVC) stringConcat(x, y Val, st *State, typ types.Type) Val {
	et := types.Typ[types.Uint8]
	ref := v.newRef(st, "str")
	h, name := v.sliceHeapTerm(st, et)
	arr := v.fresh("strcat", ArrSort(SInt))
	lx, ly := SLen(x.T), SLen(y.T)
	freshCounter++
	k := Var(fmt.Sprintf("sc?%d", freshCounter), SInt)
	ax := Select(h, SRef(x.T))
	ay := Select(h, SRef(y.T))
	v.assume(v.curGuard, Forall([]*Term{k}, And(
		Implies(And(Le(IntLit(0), k), Lt(k, lx)), Eq(Select(arr, k), Select(ax, Add(SOff(x.T), k)))),
		Implies(And(Le(lx, k), Lt(k, Add(lx, ly))), Eq(Select(arr, k), Select(ay, Sub(Add(SOff(y.T), k), lx))))),
		[]*Term{Select(arr, k)}), "concat")
	st.heaps[name] = v.define(name, Store(h, ref, arr))
	n := v.define("len", Add(lx, ly))
	return Val{T: MkSlice(ref, IntLit(0), n, n), Typ: typ}
}

func (v *FnVC) execConvert(in *ssa.Convert, st *State) {
	x := v.value(in.X, st)
	from, to := in.X.Type(), in.Type()
	fi, fok := basicInt(from)
	ti, tok := basicInt(to)
	switch {
	case fok && tok:
		if fi.min().Cmp(ti.min()) >= 0 && fi.max().Cmp(ti.max()) <= 0 {
			v.regs[in] = Val{T: x.T, Typ: to}
			return
		}
		if lit, ok := x.T.IntVal(); ok && lit.Cmp(ti.min()) >= 0 && lit.Cmp(ti.max()) <= 0 {
			v.regs[in] = Val{T: x.T, Typ: to}
			return
		}
		if !ti.signed {
			v.regs[in] = Val{T: v.define("conv", EMod(x.T, BigLit(pow2big(ti.bits)))), Typ: to}
			return
		}
		if v.spec != nil && v.spec.Opts["overflow"] == "wrap" {
			half := BigLit(pow2big(ti.bits - 1))
			v.regs[in] = Val{T: v.define("conv", Sub(EMod(Add(x.T, half), BigLit(pow2big(ti.bits))), half)), Typ: to}
			return
		}
		n := v.ord("overflow")
		if v.g.wrapSites[v.fn][n] {
			half := BigLit(pow2big(ti.bits - 1))
			v.regs[in] = Val{T: v.define("conv", Sub(EMod(Add(x.T, half), BigLit(pow2big(ti.bits))), half)), Typ: to}
			return
		}
		v.oblige("overflow", fmt.Sprintf("overflow#%d", n), v.curGuard,
			And(Le(BigLit(ti.min()), x.T), Le(x.T, BigLit(ti.max()))), v.posOf(in.Pos()), "conversion to "+to.String()+" keeps the value")
		v.regs[in] = Val{T: x.T, Typ: to}
	case isString(from) && isByteSlice(to), isByteSlice(from) && isString(to):
		// fresh copy
		et := types.Typ[types.Uint8]
		ref := v.newRef(st, "conv")
		h, name := v.sliceHeapTerm(st, et)
		arr := v.fresh("convarr", ArrSort(SInt))
		freshCounter++
		k := Var(fmt.Sprintf("cv?%d", freshCounter), SInt)
		src := Select(h, SRef(x.T))
		v.assume(v.curGuard, Forall([]*Term{k}, Implies(And(Le(IntLit(0), k), Lt(k, SLen(x.T))),
			Eq(Select(arr, k), Select(src, Add(SOff(x.T), k)))), []*Term{Select(arr, k)}), "conv")
		st.heaps[name] = v.define(name, Store(h, ref, arr))
		v.regs[in] = Val{T: MkSlice(ref, IntLit(0), SLen(x.T), SLen(x.T)), Typ: to}
	case isString(to) && fok:
		// string(rune/byte): a one-to-four byte string; contents abstracted except for bytes < 128
		et := types.Typ[types.Uint8]
		ref := v.newRef(st, "conv")
		h, name := v.sliceHeapTerm(st, et)
		arr := v.fresh("convarr", ArrSort(SInt))
		ln := v.fresh("convlen", SInt)
		v.assume(v.curGuard, And(Le(IntLit(1), ln), Le(ln, IntLit(4)),
			Implies(And(Le(IntLit(0), x.T), Lt(x.T, IntLit(128))), And(Eq(ln, IntLit(1)), Eq(Select(arr, IntLit(0)), x.T)))), "conv")
		st.heaps[name] = v.define(name, Store(h, ref, arr))
		v.regs[in] = Val{T: MkSlice(ref, IntLit(0), ln, ln), Typ: to}
	case isFloat(to) || isFloat(from):
		if tok {
			r := v.fresh("f2i", SInt)
			v.assume(v.curGuard, v.typeInv(r, to, st), "type")
			v.regs[in] = Val{T: r, Typ: to}
		} else {
			v.regs[in] = Val{T: v.fresh("float", SInt), Typ: to}
		}
	default:
		unsupported("conversion %s -> %s at %s", from, to, v.posOf(in.Pos()))
	}
}

func isByteSlice(t types.Type) bool {
	s, ok := t.Underlying().(*types.Slice)
	if !ok {
		return false
	}
	b, ok := s.Elem().Underlying().(*types.Basic)
	return ok && b.Kind() == types.Uint8
}

func (v *FnVC) execIndexAddr(in *ssa.IndexAddr, st *State) {
	x := v.value(in.X, st)
	i := v.value(in.Index, st).T
	n := v.ord("index")
	switch u := in.X.Type().Underlying().(type) {
	case *types.Slice:
		v.oblige("index", fmt.Sprintf("index#%d", n), v.curGuard, And(Le(IntLit(0), i), Lt(i, SLen(x.T))), v.posOf(in.Pos()), "index in range")
		v.regs[in] = Val{Typ: in.Type(), Addr: &Addr{Kind: "elem", Heap: sliceHeap(u.Elem()), Ref: SRef(x.T), Idx: Add(SOff(x.T), i), Typ: u.Elem()}}
	case *types.Pointer:
		arr := u.Elem().Underlying().(*types.Array)
		if x.T == nil {
			unsupported("index of array local at %s", v.posOf(in.Pos()))
		}
		v.oblige("index", fmt.Sprintf("index#%d", n), v.curGuard, And(Le(IntLit(0), i), Lt(i, IntLit(arr.Len()))), v.posOf(in.Pos()), "array index in range")
		v.regs[in] = Val{Typ: in.Type(), Addr: &Addr{Kind: "elem", Heap: sliceHeap(arr.Elem()), Ref: x.T, Idx: i, Typ: arr.Elem()}}
	default:
		unsupported("IndexAddr on %s", in.X.Type())
	}
}

func (v *FnVC) execSlice(in *ssa.Slice, st *State) {
	x := v.value(in.X, st)
	var lo, hi, max *Term
	if in.Low != nil {
		lo = v.value(in.Low, st).T
	} else {
		lo = IntLit(0)
	}
	n := v.ord("slice")
	name := fmt.Sprintf("slice#%d", n)
	switch u := in.X.Type().Underlying().(type) {
	case *types.Slice, *types.Basic:
		str := isString(in.X.Type())
		if in.High != nil {
			hi = v.value(in.High, st).T
		} else {
			hi = SLen(x.T)
		}
		limit := SCap(x.T)
		if str {
			limit = SLen(x.T)
		}
		cp := Sub(SCap(x.T), lo)
		if in.Max != nil {
			max = v.value(in.Max, st).T
			v.oblige("slice", name, v.curGuard, And(Le(IntLit(0), lo), Le(lo, hi), Le(hi, max), Le(max, limit)), v.posOf(in.Pos()), "slice bounds in range")
			cp = Sub(max, lo)
		} else {
			v.oblige("slice", name, v.curGuard, And(Le(IntLit(0), lo), Le(lo, hi), Le(hi, limit)), v.posOf(in.Pos()), "slice bounds in range")
		}
		ln := Sub(hi, lo)
		if str {
			cp = ln
		}
		// a nil slice stays nil when resliced [0:0]
		v.regs[in] = Val{T: MkSlice(SRef(x.T), Add(SOff(x.T), lo), ln, cp), Typ: in.Type()}
	case *types.Pointer:
		arr := u.Elem().Underlying().(*types.Array)
		N := IntLit(arr.Len())
		if in.High != nil {
			hi = v.value(in.High, st).T
		} else {
			hi = N
		}
		v.oblige("slice", name, v.curGuard, And(Le(IntLit(0), lo), Le(lo, hi), Le(hi, N)), v.posOf(in.Pos()), "slice bounds in range")
		if x.T == nil {
			unsupported("slice of array local")
		}
		v.regs[in] = Val{T: MkSlice(x.T, lo, Sub(hi, lo), Sub(N, lo)), Typ: in.Type()}
	default:
		unsupported("slice of %s", in.X.Type())
	}
}

// ---------- block driver ----------

func (v *FnVC) run() {
	fn := v.fn
	for _, b := range v.cfg.Order {
		var st *State
		var reach *Term
		v.curBlock = b
		if b == fn.Blocks[0] {
			st = v.entry.clone()
			reach = True
		} else {
			var ins []*edgeInfo
			var phiEdges []int
			for pi, p := range b.Preds {
				if e, ok := v.edges[[2]int{p.Index, b.Index}]; ok && !v.cfg.BackEdge[[2]int{p.Index, b.Index}] {
					dup := false
					for _, q := range b.Preds[:pi] {
						if q == p {
							dup = true
						}
					}
					if dup {
						continue
					}
					ins = append(ins, e)
					phiEdges = append(phiEdges, pi)
				}
			}
			if len(ins) == 0 {
				continue
			}
			var conds []*Term
			for _, e := range ins {
				conds = append(conds, e.cond)
			}
			reach = v.define(fmt.Sprintf("reach_b%d", b.Index), Or(conds...))
			if len(conds) > 1 && len(conds) <= 6 {
				v.blockCases[b] = conds
			} else if len(ins) == 1 {
				// single predecessor: inherit its case split
				for _, p := range b.Preds {
					if _, ok := v.edges[[2]int{p.Index, b.Index}]; ok && !v.cfg.BackEdge[[2]int{p.Index, b.Index}] {
						if cs := v.blockCases[p]; cs != nil && v.cfg.LoopOf[b] == nil {
							v.blockCases[b] = cs
						}
					}
				}
			}
			st = v.mergeStates(b, ins)
			// phis
			for _, in := range b.Instrs {
				phi, ok := in.(*ssa.Phi)
				if !ok {
					break
				}
				var t *Term
				for k := len(ins) - 1; k >= 0; k-- {
					ev := v.value(phi.Edges[phiEdges[k]], ins[k].st)
					if ev.T == nil {
						unsupported("phi of untracked values")
					}
					if t == nil {
						t = ev.T
					} else {
						t = Ite(ins[k].cond, ev.T, t)
					}
				}
				v.regs[phi] = Val{T: v.define("phi", t), Typ: phi.Type()}
			}
		}
		v.reach[b] = reach
		v.curBlock = b
		v.curGuard = reach
		if l := v.cfg.LoopOf[b]; l != nil {
			st = v.loopHead(l, st, reach)
		}
		for _, in := range b.Instrs {
			v.execInstr(in, st)
		}
		// terminator
		if len(b.Instrs) == 0 {
			continue
		}
		switch t := b.Instrs[len(b.Instrs)-1].(type) {
		case *ssa.If:
			c := v.value(t.Cond, st).T
			v.addEdge(b, b.Succs[0], And(reach, c), st)
			v.addEdge(b, b.Succs[1], And(reach, Not(c)), st)
		case *ssa.Jump:
			v.addEdge(b, b.Succs[0], reach, st)
		case *ssa.Return:
			v.execReturn(t, st)
		case *ssa.Panic:
			v.execPanic(t, st)
		}
	}
}

func (v *FnVC) addEdge(from, to *ssa.BasicBlock, cond *Term, st *State) {
	key := [2]int{from.Index, to.Index}
	if v.cfg.BackEdge[key] {
		v.loopBack(v.cfg.LoopOf[to], st, cond)
		return
	}
	if old, ok := v.edges[key]; ok {
		old.cond = Or(old.cond, cond)
		return
	}
	v.edges[key] = &edgeInfo{cond: cond, st: st.clone()}
}

func (v *FnVC) paramVals() map[string]Val {
	m := map[string]Val{}
	for _, p := range v.fn.Params {
		m[p.Name()] = v.regs[p]
	}
	return m
}

func (v *FnVC) resultNames() []string {
	res := v.fn.Signature.Results()
	var names []string
	for i := 0; i < res.Len(); i++ {
		n := res.At(i).Name()
		if n == "" || n == "_" {
			if res.Len() == 1 {
				n = "result"
			} else {
				n = fmt.Sprintf("result%d", i)
			}
		}
		names = append(names, n)
	}
	return names
}

func (v *FnVC) execReturn(r *ssa.Return, st *State) {
	env := v.entryEnv.child()
	env.st = st
	env.old = v.entryEnv
	names := v.resultNames()
	for i, x := range r.Results {
		val := v.value(x, st)
		env.vars[names[i]] = val
		if len(r.Results) == 1 {
			env.vars["result"] = val
		}
	}
	// ghost variables current values
	v.bindGhost(env, st)
	v.ghostUpdates("exit", env, st, v.posOf(r.Pos()))
	env.st = st
	k := v.ord("ret")
	v.smoke(fmt.Sprintf("smoke@ret%d", k), v.curGuard, v.posOf(r.Pos()))
	for _, u := range v.spec.ExitUses {
		v.useLemma(env, u, v.curGuard)
	}
	for i, c := range v.spec.Ensures {
		goal := v.evalClause(env, c)
		nm := fmt.Sprintf("ensures#%d", i+1)
		if c.Name != "" {
			nm = "ensures:" + c.Name
		}
		if v.counters["retcount"] > 1 {
			nm += fmt.Sprintf("@ret%d", k)
		}
		v.oblige("ensures", nm, v.curGuard, goal, v.posOf(r.Pos()), c.Text)
	}
}

func (v *FnVC) evalClause(env *Env, c *Clause) (t *Term) {
	defer func() {
		if r := recover(); r != nil {
			if se, ok := r.(SpecError); ok {
				panic(SpecError{fmt.Sprintf("%s: %s (in %q)", c.Line, se.Msg, c.Text)})
			}
			panic(r)
		}
	}()
	return env.bool(c.E)
}

func (v *FnVC) execPanic(p *ssa.Panic, st *State) {
	n := v.ord("panic")
	var alts []*Term
	for _, c := range v.spec.Panics {
		alts = append(alts, v.evalClause(v.entryEnv, c))
	}
	txt := "explicit panic is unreachable"
	if len(alts) > 0 {
		txt = "explicit panic only under the documented condition"
	}
	v.oblige("panic", fmt.Sprintf("panic#%d", n), v.curGuard, Or(alts...), v.posOf(p.Pos()), txt)
}

// ---------- loops ----------

type loopTargets struct {
	vars   map[string]types.Type
	heaps  map[string]bool
	alloc  bool
	bases  map[string]map[string]bool // heap → local var keys used as store bases
	noBase map[string]bool            // heap → some store has an unresolved base
	assigned map[string]bool          // local slice vars assigned in the loop
}

func (v *FnVC) localKeyOfAddr(x ssa.Value) (string, types.Type, bool) {
	switch a := x.(type) {
	case *ssa.Alloc:
		if k, ok := v.locals[a]; ok && !v.lstruct[a] {
			return k, a.Type().(*types.Pointer).Elem(), true
		}
	case *ssa.FieldAddr:
		if al, ok := a.X.(*ssa.Alloc); ok && v.lstruct[al] {
			f := al.Type().(*types.Pointer).Elem().Underlying().(*types.Struct).Field(a.Field)
			return v.locals[al] + "." + f.Name(), f.Type(), true
		}
	}
	return "", nil, false
}

// baseLocal resolves the slice operand of a store/append to a local variable.
func (v *FnVC) baseLocal(x ssa.Value) (string, bool) {
	for {
		switch y := x.(type) {
		case *ssa.UnOp:
			if y.Op == token.MUL {
				if k, _, ok := v.localKeyOfAddr(y.X); ok {
					return k, true
				}
			}
			return "", false
		case *ssa.Slice:
			x = y.X
		case *ssa.ChangeType:
			x = y.X
		default:
			return "", false
		}
	}
}

func (v *FnVC) scanLoop(l *Loop) *loopTargets {
	t := &loopTargets{vars: map[string]types.Type{}, heaps: map[string]bool{}, bases: map[string]map[string]bool{}, noBase: map[string]bool{}, assigned: map[string]bool{}}
	addBase := func(heap string, x ssa.Value) {
		if k, ok := v.baseLocal(x); ok {
			if t.bases[heap] == nil {
				t.bases[heap] = map[string]bool{}
			}
			t.bases[heap][k] = true
		} else {
			t.noBase[heap] = true
		}
	}
	var blocks []*ssa.BasicBlock
	for b := range l.Body {
		blocks = append(blocks, b)
	}
	sort.Slice(blocks, func(i, j int) bool { return blocks[i].Index < blocks[j].Index })
	for _, b := range blocks {
		for _, in := range b.Instrs {
			switch in := in.(type) {
			case *ssa.Store:
				if k, typ, ok := v.localKeyOfAddr(in.Addr); ok {
					t.vars[k] = typ
					if sortOf(typ) == SSlice {
						// allowed assignment forms keep the base relation
						t.assigned[k] = true
					}
					continue
				}
				switch a := in.Addr.(type) {
				case *ssa.IndexAddr:
					et := elemTypeOf(a.X.Type())
					h := sliceHeap(et)
					t.heaps[h] = true
					if _, isPtr := a.X.Type().Underlying().(*types.Pointer); isPtr {
						// array allocated in the loop (varargs) is fresh
						if al, ok := a.X.(*ssa.Alloc); ok && l.Body[al.Block()] {
							continue
						}
						t.noBase[h] = true
						continue
					}
					addBase(h, a.X)
				case *ssa.FieldAddr:
					stt := a.X.Type().Underlying().(*types.Pointer).Elem()
					f := stt.Underlying().(*types.Struct).Field(a.Field)
					t.heaps[fieldHeap(stt, f.Name())] = true
				default:
					pt := in.Addr.Type().Underlying().(*types.Pointer)
					t.heaps[cellHeap(pt.Elem())] = true
				}
			case *ssa.Alloc:
				if _, ok := v.locals[in]; ok {
					// re-initialised at each execution of the declaration
					et := in.Type().(*types.Pointer).Elem()
					if v.lstruct[in] {
						s := et.Underlying().(*types.Struct)
						for i := 0; i < s.NumFields(); i++ {
							t.vars[v.locals[in]+"."+s.Field(i).Name()] = s.Field(i).Type()
						}
					} else {
						t.vars[v.locals[in]] = et
					}
					continue
				}
				t.alloc = true
				et := in.Type().(*types.Pointer).Elem()
				switch u := et.Underlying().(type) {
				case *types.Array:
					t.heaps[sliceHeap(u.Elem())] = true
				case *types.Struct:
					for i := 0; i < u.NumFields(); i++ {
						t.heaps[fieldHeap(et, u.Field(i).Name())] = true
					}
				default:
					t.heaps[cellHeap(et)] = true
				}
			case *ssa.MakeSlice:
				t.alloc = true
				t.heaps[sliceHeap(in.Type().Underlying().(*types.Slice).Elem())] = true
			case *ssa.Convert:
				if isString(in.Type()) || isString(in.X.Type()) {
					t.alloc = true
					t.heaps[sliceHeap(types.Typ[types.Uint8])] = true
				}
			case *ssa.BinOp:
				if isString(in.Type()) && in.Op == token.ADD {
					t.alloc = true
					t.heaps[sliceHeap(types.Typ[types.Uint8])] = true
				}
			case *ssa.Call:
				v.scanCall(in, t, addBase)
			}
		}
	}
	return t
}

func (v *FnVC) scanCall(in *ssa.Call, t *loopTargets, addBase func(string, ssa.Value)) {
	if b, ok := in.Call.Value.(*ssa.Builtin); ok {
		switch b.Name() {
		case "append":
			et := elemTypeOf(in.Call.Args[0].Type())
			h := sliceHeap(et)
			t.heaps[h] = true
			t.alloc = true
			addBase(h, in.Call.Args[0])
		case "copy":
			et := elemTypeOf(in.Call.Args[0].Type())
			h := sliceHeap(et)
			t.heaps[h] = true
			addBase(h, in.Call.Args[0])
		}
		return
	}
	callee, cspec := v.g.calleeSpec(v, in.Call)
	if cspec == nil {
		// unknown callee: everything may change (reported when executed)
		t.alloc = true
		for h := range v.g.allHeaps(v) {
			t.heaps[h] = true
			t.noBase[h] = true
		}
		return
	}
	if cspec.Pure {
		return
	}
	hs, allocs := v.g.calleeFootprint(v, callee, cspec, in.Call)
	if allocs {
		t.alloc = true
	}
	for h, how := range hs {
		t.heaps[h] = true
		if how == "write" {
			t.noBase[h] = true
		}
	}
}

func (v *FnVC) loopName(l *Loop) string {
	return fmt.Sprintf("loop%d", l.Ordinal)
}

func (v *FnVC) invEnv(l *Loop, st *State, ls *loopState) *Env {
	env := v.entryEnv.child()
	env.st = st
	env.old = v.entryEnv
	env.local = func(name string) (Val, bool) { return v.localByName(name, l, st) }
	// parameters are shadowed by their local copies
	for _, p := range v.fn.Params {
		if val, ok := v.localByName(p.Name(), l, st); ok {
			env.vars[p.Name()] = val
		}
	}
	if ls != nil && ls.preEnv != nil {
		env.pre = ls.preEnv
	}
	v.bindGhost(env, st)
	return env
}

func (v *FnVC) bindGhost(env *Env, st *State) {
	for name, typ := range v.ghostVars {
		if t, ok := st.vars["ghost."+name]; ok {
			if v.ghostSeq[name] {
				env.vars[name] = Val{T: MkSlice(IntLit(0), IntLit(0), IntLit(0), IntLit(0)), Typ: typ, Arr: t}
			} else {
				env.vars[name] = Val{T: t, Typ: typ}
			}
		}
	}
}

// localByName resolves a source-level local variable name to its current value.
func (v *FnVC) localByName(name string, l *Loop, st *State) (Val, bool) {
	want := -1
	if i := strings.Index(name, "__"); i > 0 {
		if n, err := strconv.Atoi(name[i+2:]); err == nil {
			want = n
			name = name[:i]
		}
	}
	var cands []*ssa.Alloc
	for a := range v.locals {
		if a.Comment == name && !v.lstruct[a] {
			cands = append(cands, a)
		}
	}
	// loop-form independence: at the head of a range loop the key variable denotes the
	// next index (rangeindex+1); at the head of a counted loop `rangeindex` denotes the
	// induction variable minus one.  A contract therefore survives a change between
	// `for i := 0; i < len(x); i++` and `for i := range x`.
	if l != nil && want < 0 {
		if val, ok := v.loopCounterAlias(name, l, st); ok {
			return val, true
		}
	}
	// lexical scoping: at a loop only declarations visible at the loop are candidates
	if l != nil && l.MinPos.IsValid() && want < 0 {
		var vis []*ssa.Alloc
		for _, a := range cands {
			if v.visibleAt(a, name, l.MinPos) {
				vis = append(vis, a)
			}
		}
		cands = vis
	}
	if name == "rangeindex" && l != nil && want < 0 {
		// only the range counters of this loop or of an enclosing loop are meant
		var own []*ssa.Alloc
		for _, a := range cands {
			for _, r := range *a.Referrers() {
				if _, dbg := r.(*ssa.DebugRef); dbg {
					continue
				}
				hit := false
				for q := l; q != nil; q = q.Parent {
					if q.Head == r.Block() {
						hit = true
					}
				}
				if hit {
					own = append(own, a)
					break
				}
			}
		}
		cands = own
		if len(cands) == 0 {
			return v.countedLoopIndex(l, st)
		}
	}
	if len(cands) == 0 {
		return Val{}, false
	}
	sort.Slice(cands, func(i, j int) bool { return cands[i].Pos() < cands[j].Pos() })
	var pick *ssa.Alloc
	if want > 0 {
		if want > len(cands) {
			specErr("no %d-th declaration of %s", want, name)
		}
		pick = cands[want-1]
	} else if len(cands) == 1 {
		pick = cands[0]
	} else {
		// prefer the declaration that is used inside the loop
		var used []*ssa.Alloc
		for _, a := range cands {
			u := false
			for _, r := range *a.Referrers() {
				if _, dbg := r.(*ssa.DebugRef); dbg {
					continue
				}
				if l != nil && l.Body[r.Block()] {
					u = true
				}
			}
			if u {
				used = append(used, a)
			}
		}
		if len(used) == 1 {
			pick = used[0]
		} else {
			// last declaration before the loop head in source order
			if l != nil {
				for _, a := range cands {
					if _, ok := st.vars[v.locals[a]]; ok && a.Pos() < l.MinPos {
						pick = a
					}
				}
			}
			if pick == nil {
				specErr("local %q is ambiguous (%d declarations); write %s__N", name, len(cands), name)
			}
		}
	}
	key := v.locals[pick]
	t, ok := st.vars[key]
	et := pick.Type().(*types.Pointer).Elem()
	if !ok {
		t = zeroTerm(et)
	}
	return Val{T: t, Typ: et}, true
}

// visibleAt: the declaration behind alloc a (a variable called name) is in scope at pos.
func (v *FnVC) visibleAt(a *ssa.Alloc, name string, pos token.Pos) bool {
	if !a.Pos().IsValid() || v.pkg == nil {
		return true
	}
	sc := v.pkg.Scope().Innermost(a.Pos())
	for sc != nil {
		if obj := sc.Lookup(name); obj != nil && obj.Pos() == a.Pos() {
			return sc.Contains(pos) || !sc.Pos().IsValid()
		}
		sc = sc.Parent()
	}
	return true // declaration scope not found (parameters, results): do not filter
}

// loopCounterAlias implements the two loop-form aliases described in localByName.
func (v *FnVC) loopCounterAlias(name string, l *Loop, st *State) (Val, bool) {
	tInt := types.Typ[types.Int]
	// the rangeindex alloc read in the head of l, if l is a range loop over a slice/array/string
	var ri *ssa.Alloc
	var inc *ssa.BinOp
	for _, in := range l.Head.Instrs {
		if b, ok := in.(*ssa.BinOp); ok && b.Op == token.ADD {
			if ld, ok := b.X.(*ssa.UnOp); ok && ld.Op == token.MUL {
				if a, ok := ld.X.(*ssa.Alloc); ok && a.Comment == "rangeindex" {
					ri, inc = a, b
				}
			}
		}
	}
	if ri != nil {
		if name == "rangeindex" {
			return Val{}, false
		}
		// is `name` the key variable of this range loop?  (*key = rangeindex+1 in the body)
		for b := range l.Body {
			for _, in := range b.Instrs {
				s, ok := in.(*ssa.Store)
				if !ok {
					continue
				}
				fromIndex := s.Val == ssa.Value(inc)
				if ld, isLoad := s.Val.(*ssa.UnOp); isLoad && ld.Op == token.MUL && ld.X == ssa.Value(ri) {
					fromIndex = true
				}
				if fromIndex {
					if a, ok := s.Addr.(*ssa.Alloc); ok && a.Comment == name {
						cur, ok := st.vars[v.locals[ri]]
						if !ok {
							return Val{}, false
						}
						return Val{T: Add(cur, IntLit(1)), Typ: tInt}, true
					}
				}
			}
		}
		return Val{}, false
	}
	return Val{}, false
}

// countedLoopIndex: `rangeindex` at a counted loop = its induction variable - 1.
func (v *FnVC) countedLoopIndex(l *Loop, st *State) (Val, bool) {
	tInt := types.Typ[types.Int]
	// counted loop: the unique int local whose only stores inside the loop are `x = x + 1`
	// and which the head compares
	var ind *ssa.Alloc
	count := 0
	for a := range v.locals {
		if v.lstruct[a] || !types.Identical(a.Type().(*types.Pointer).Elem(), tInt) {
			continue
		}
		stores, ok := 0, true
		for _, r := range *a.Referrers() {
			s, isStore := r.(*ssa.Store)
			if !isStore || !l.Body[s.Block()] || s.Addr != ssa.Value(a) {
				continue
			}
			stores++
			b, isAdd := s.Val.(*ssa.BinOp)
			if !isAdd || b.Op != token.ADD {
				ok = false
				continue
			}
			ld, isLoad := b.X.(*ssa.UnOp)
			c, isConst := b.Y.(*ssa.Const)
			if !isLoad || ld.Op != token.MUL || ld.X != ssa.Value(a) || !isConst || c.Value == nil || c.Int64() != 1 {
				ok = false
			}
		}
		if stores != 1 || !ok {
			continue
		}
		// compared in the head
		cmp := false
		for _, in := range l.Head.Instrs {
			if b, isB := in.(*ssa.BinOp); isB && (b.Op == token.LSS || b.Op == token.LEQ || b.Op == token.GTR || b.Op == token.GEQ || b.Op == token.NEQ) {
				for _, o := range []ssa.Value{b.X, b.Y} {
					if ld, isLoad := o.(*ssa.UnOp); isLoad && ld.Op == token.MUL && ld.X == ssa.Value(a) {
						cmp = true
					}
				}
			}
		}
		if cmp {
			ind = a
			count++
		}
	}
	if count != 1 {
		return Val{}, false
	}
	cur, ok := st.vars[v.locals[ind]]
	if !ok {
		return Val{}, false
	}
	return Val{T: Sub(cur, IntLit(1)), Typ: tInt}, true
}

func (v *FnVC) loopHead(l *Loop, pre *State, reach *Term) *State {
	ls := &loopState{pre: pre.clone()}
	v.loopInfo[l] = ls
	v.curLoopState = ls
	defer func() { v.curLoopState = nil }()
	ln := v.loopName(l)
	if l.Spec == nil {
		specErr("loop %d (line %d, block %q) has no invariant block in the contract", l.Ordinal, l.Line, l.Label)
	}
	preEnv := v.invEnv(l, ls.pre, nil)
	ls.preEnv = preEnv
	tg := v.scanLoop(l)
	// auto invariants for assigned base slices
	type autoInv struct {
		key string
		f   func(st *State) *Term
	}
	var autos []autoInv
	for heap, bs := range tg.bases {
		if tg.noBase[heap] {
			continue
		}
		for k := range bs {
			if _, exists := pre.vars[k]; tg.assigned[k] && exists {
				k := k
				preRef := SRef(pre.vars[k])
				preAlloc := pre.alloc
				autos = append(autos, autoInv{k, func(st *State) *Term {
					return Or(Eq(SRef(st.vars[k]), preRef), Ge(SRef(st.vars[k]), preAlloc))
				}})
			}
		}
	}
	sort.Slice(autos, func(i, j int) bool { return autos[i].key < autos[j].key })
	// init obligations
	envPre := v.invEnv(l, pre, ls)
	for i, c := range l.Spec.Invariants {
		v.oblige("inv-init", fmt.Sprintf("inv#%d.init@%s", i+1, ln), reach, v.evalClause(envPre, c), fmt.Sprintf("%s:%d", shortFile(v.fn.Prog.Fset.Position(v.fn.Pos()).Filename), l.Line), c.Text)
	}
	// havoc
	h := pre.clone()
	var vkeys []string
	for k := range tg.vars {
		vkeys = append(vkeys, k)
	}
	sort.Strings(vkeys)
	for _, k := range vkeys {
		typ := tg.vars[k]
		if _, ok := pre.vars[k]; !ok {
			continue // declared inside the loop: initialised before use
		}
		nv := v.freshVal(k+"@"+ln, sortOf(typ))
		h.vars[k] = nv
	}
	if tg.alloc {
		h.alloc = v.fresh("alloc@"+ln, SInt)
		v.assume(reach, Ge(h.alloc, pre.alloc), "alloc-monotone")
	}
	var hkeys []string
	for k := range tg.heaps {
		hkeys = append(hkeys, k)
	}
	sort.Strings(hkeys)
	for _, k := range hkeys {
		srt, ok := v.heapSorts[k]
		if !ok {
			continue
		}
		oldH := v.heap(pre, k, srt)
		nh := v.fresh(k+"@"+ln, srt)
		h.heaps[k] = nh
		v.frameAssume(reach, k, srt, nh, oldH, pre, tg)
	}
	for _, k := range vkeys {
		if t, ok := h.vars[k]; ok {
			v.assume(reach, v.typeInv(t, tg.vars[k], h), "type")
		}
	}
	// ghost variables modified in the loop are havocked too (conservatively all)
	for name, typ := range v.ghostVars {
		if l.Spec.Opts["ghost-const"] == "true" {
			break
		}
		key := "ghost." + name
		if _, ok := pre.vars[key]; ok && v.ghostAssignedIn(l, name) {
			if v.ghostSeq[name] {
				h.vars[key] = v.fresh(key+"@"+ln, ArrSort(SInt))
			} else {
				h.vars[key] = v.fresh(key+"@"+ln, sortOf(typ))
			}
		}
	}
	{
		hv := map[string]bool{}
		for _, k := range hkeys {
			hv[k] = true
		}
		if tg.alloc || len(hv) > 0 {
			if tg.alloc {
				v.assumeClosure(h, reach, nil)
			} else {
				v.assumeClosure(h, reach, hv)
			}
		}
	}
	ls.head = h.clone()
	envH := v.invEnv(l, h, ls)
	for _, c := range l.Spec.Invariants {
		v.assume(reach, v.evalClause(envH, c), "inv")
	}
	for _, a := range autos {
		v.assume(reach, a.f(h), "auto-inv")
	}
	for _, u := range l.Spec.Uses {
		v.useLemma(envH, u, reach)
	}
	ls.autos = nil
	for _, a := range autos {
		ls.autos = append(ls.autos, a.f)
	}
	if l.Spec.Decreases != nil {
		for _, e := range l.Spec.Decreases.Es {
			ls.variant = append(ls.variant, v.define("variant", envH.int(e)))
		}
	}
	if len(l.Spec.Splits) > 0 {
		var cases []*Term
		for _, c := range l.Spec.Splits {
			cases = append(cases, v.evalClause(envH, c))
		}
		v.oblige("split", "split-cover@"+ln, reach, Or(cases...), fmt.Sprintf("%s:%d", shortFile(v.fn.Prog.Fset.Position(v.fn.Pos()).Filename), l.Line), "the loop-level case split covers every head state")
		ls.cases = cases
	}
	return h
}

// frameAssume relates a havocked heap to its pre-loop value.
func (v *FnVC) frameAssume(guard *Term, heap, srt string, nh, oldH *Term, pre *State, tg *loopTargets) {
	defer func() {
		// remember the exception set so that every store in the body is checked against it
		if strings.HasPrefix(heap, "HS_") && !tg.noBase[heap] && v.curLoopState != nil {
			lf := &loopFrame{alloc: pre.alloc}
			var ks []string
			for k := range tg.bases[heap] {
				ks = append(ks, k)
			}
			sort.Strings(ks)
			for _, k := range ks {
				if pt, ok := pre.vars[k]; ok {
					lf.refs = append(lf.refs, SRef(pt))
				}
			}
			if v.curLoopState.frame == nil {
				v.curLoopState.frame = map[string]*loopFrame{}
			}
			v.curLoopState.frame[heap] = lf
		}
	}()
	if !strings.HasPrefix(heap, "HS_") {
		// pointer cells / fields: function-level frame only
		v.funcFrame(guard, heap, srt, nh)
		return
	}
	freshCounter++
	r := Var(fmt.Sprintf("fr?%d", freshCounter), SInt)
	if !tg.noBase[heap] {
		conds := []*Term{Lt(r, pre.alloc)}
		var ks []string
		for k := range tg.bases[heap] {
			ks = append(ks, k)
		}
		sort.Strings(ks)
		for _, k := range ks {
			if pt, ok := pre.vars[k]; ok {
				conds = append(conds, Ne(r, SRef(pt)))
			}
		}
		v.assume(guard, Forall([]*Term{r}, Implies(And(conds...), Eq(Select(nh, r), Select(oldH, r))), []*Term{Select(nh, r)}), "loop-frame")
		return
	}
	v.funcFrame(guard, heap, srt, nh)
}

// funcFrame: memory that existed at entry and is not in modifies is unchanged.
func (v *FnVC) funcFrame(guard *Term, heap, srt string, nh *Term) {
	if v.modAll {
		return
	}
	h0 := v.heap(v.entry, heap, srt)
	freshCounter++
	r := Var(fmt.Sprintf("fr?%d", freshCounter), SInt)
	conds := []*Term{Lt(r, v.entry.alloc)}
	for _, m := range v.mods {
		if m.heap == heap || (m.kind == "struct" && strings.HasPrefix(heap, m.heap)) {
			conds = append(conds, Ne(r, m.ref))
		}
	}
	v.assume(guard, Forall([]*Term{r}, Implies(And(conds...), Eq(Select(nh, r), Select(h0, r))), []*Term{Select(nh, r)}), "func-frame")
}

func (v *FnVC) loopBack(l *Loop, st *State, cond *Term) {
	ls := v.loopInfo[l]
	if ls == nil {
		panic("back edge before loop head")
	}
	ln := v.loopName(l)
	env := v.invEnv(l, st, ls)
	nb := v.ord("back@" + ln)
	suffix := ""
	if nb > 1 {
		suffix = fmt.Sprintf(".%d", nb)
	}
	pos := fmt.Sprintf("%s:%d", shortFile(v.fn.Prog.Fset.Position(v.fn.Pos()).Filename), l.Line)
	v.smoke(fmt.Sprintf("smoke@%s.back%d", ln, nb), cond, pos)
	if len(l.Spec.BackUses) > 0 && ls.head != nil {
		env.iter = v.invEnv(l, ls.head, ls)
		for _, u := range l.Spec.BackUses {
			v.useLemma(env, u, cond)
		}
	}
	for i, c := range l.Spec.Invariants {
		v.oblige("inv-preserve", fmt.Sprintf("inv#%d.preserve@%s%s", i+1, ln, suffix), cond, v.evalClause(env, c), pos, c.Text)
	}
	for i, f := range ls.autos {
		v.oblige("inv-preserve", fmt.Sprintf("auto-inv#%d.preserve@%s%s", i+1, ln, suffix), cond, f(st), pos, "written slice stays in its array or moves to fresh memory")
	}
	if l.Spec.Decreases != nil {
		var now []*Term
		for _, e := range l.Spec.Decreases.Es {
			now = append(now, env.int(e))
		}
		// lexicographic decrease, each component bounded below by 0
		var lex *Term = False
		for i := len(now) - 1; i >= 0; i-- {
			lt := And(Lt(now[i], ls.variant[i]), Ge(ls.variant[i], IntLit(0)))
			lex = Or(lt, And(Eq(now[i], ls.variant[i]), lex))
		}
		v.oblige("decreases", fmt.Sprintf("decreases@%s%s", ln, suffix), cond, lex, pos, l.Spec.Decreases.Text)
	}
}

// ghostAssignedIn: some call in the loop body has a contract that modifies the ghost variable.
func (v *FnVC) ghostAssignedIn(l *Loop, name string) bool {
	for b := range l.Body {
		for _, in := range b.Instrs {
			c, ok := in.(*ssa.Call)
			if !ok {
				continue
			}
			if _, isB := c.Call.Value.(*ssa.Builtin); isB {
				continue
			}
			_, spec := v.g.calleeSpec(v, c.Call)
			if spec == nil {
				continue
			}
			for _, g := range spec.ModGhost {
				if g == name {
					return true
				}
			}
		}
	}
	return false
}

// loopFrameCheck: a store inside a loop whose havoc assumed a loop-level frame
// must hit one of the loop's base arrays or memory allocated since loop entry.
// skip (optional) is a condition under which nothing is written.
func (v *FnVC) loopFrameCheck(heap string, ref *Term, skip *Term, pos token.Pos) {
	if v.cfg == nil || v.curBlock == nil {
		return
	}
	for _, l := range v.cfg.Loops {
		if !l.Body[v.curBlock] {
			continue
		}
		ls := v.loopInfo[l]
		if ls == nil || ls.frame == nil {
			continue
		}
		lf := ls.frame[heap]
		if lf == nil {
			continue
		}
		alts := []*Term{Ge(ref, lf.alloc)}
		if skip != nil {
			alts = append(alts, skip)
		}
		for _, r := range lf.refs {
			alts = append(alts, Eq(ref, r))
		}
		v.oblige("frame", fmt.Sprintf("loop-frame#%d@%s", v.ord("lframe"), v.loopName(l)), v.curGuard, Or(alts...), v.posOf(pos),
			"store inside the loop targets one of the loop's own arrays or memory allocated since loop entry")
	}
}

// isWrapCounter: x is a load of a location whose name is listed in `opt wrapcounters=`.
func (v *FnVC) isWrapCounter(x ssa.Value) bool {
	if v.spec == nil || v.spec.Opts["wrapcounters"] == "" {
		return false
	}
	names := map[string]bool{}
	for _, n := range strings.Split(v.spec.Opts["wrapcounters"], ",") {
		names[strings.TrimSpace(n)] = true
	}
	var nameOfAddr func(a ssa.Value, depth int) bool
	nameOfAddr = func(a ssa.Value, depth int) bool {
		if depth > 4 {
			return false
		}
		switch a := a.(type) {
		case *ssa.Alloc:
			return names[a.Comment]
		case *ssa.FieldAddr:
			st := a.X.Type().Underlying().(*types.Pointer).Elem().Underlying().(*types.Struct)
			return names[st.Field(a.Field).Name()]
		case *ssa.IndexAddr:
			if l, ok := a.X.(*ssa.UnOp); ok && l.Op == token.MUL {
				return nameOfAddr(l.X, depth+1)
			}
		}
		return false
	}
	if l, ok := x.(*ssa.UnOp); ok && l.Op == token.MUL {
		return nameOfAddr(l.X, 0)
	}
	return false
}
