package main

// Frame engine (C19; DESIGN §2.7): a solver-free provenance analysis over the
// SSA of every function of the repository. For every pointer-like value it
// computes where the memory it points to may come from:
//   Fresh (allocated by this call), Param(i) (reachable from the i-th
//   parameter / free variable at entry), Global (reachable from a package-level
//   variable), Unknown.
// Obligations, per function:
//   no-global-write   no store / copy / in-place append / send targets memory
//                     reachable from a package-level variable (outside init);
//   no-unknown-write  every written location has a known provenance;
//   read-only(p)      for the listed query functions: nothing reachable from
//                     parameter p is written (transitively through callees).
// Together: an operation writes only memory reachable from its own arguments
// or memory it allocated itself, and the listed queries write nothing reachable
// from the shared value. Hence operations on values with disjoint reachable
// memory, and queries on a shared value, have disjoint write footprints and
// never write what another reads (meta-argument A7: no data race, sequential
// results).

import (
	"fmt"
	"go/token"
	"go/types"
	"os"
	"sort"
	"strings"

	"golang.org/x/tools/go/packages"
	"golang.org/x/tools/go/ssa"
	"golang.org/x/tools/go/ssa/ssautil"
)

type prov uint64

const (
	pFresh   prov = 1 << 0
	pGlobal  prov = 1 << 1
	pUnknown prov = 1 << 2
	pSync    prov = 1 << 3 // synchronised library-internal global state (math/rand)
	pParam0       = 4      // bit index of parameter 0
)

func pParam(i int) prov {
	if i > 50 {
		return pUnknown
	}
	return 1 << uint(pParam0+i)
}

func (p prov) String() string {
	var s []string
	if p&pFresh != 0 {
		s = append(s, "fresh")
	}
	if p&pGlobal != 0 {
		s = append(s, "global")
	}
	if p&pUnknown != 0 {
		s = append(s, "unknown")
	}
	if p&pSync != 0 {
		s = append(s, "sync-global")
	}
	for i := 0; i <= 50; i++ {
		if p&pParam(i) != 0 {
			s = append(s, fmt.Sprintf("param%d", i))
		}
	}
	if len(s) == 0 {
		return "none"
	}
	return strings.Join(s, "|")
}

type writeSite struct {
	pos  token.Pos
	what string
	p    prov
}

type fnSummary struct {
	fn       *ssa.Function
	nparams  int // params + free vars
	writes   prov // memory classes written (own frame): params, global, unknown, sync
	res      prov // provenance of returned pointers
	flows    []prov // provenance of values stored into memory reachable from param i
	sites    []writeSite
	libCalls map[string]bool
}

type FrameEngine struct {
	prog    *ssa.Program
	fset    *token.FileSet
	pkgs    []*ssa.Package
	sums    map[*ssa.Function]*fnSummary
	all     []*ssa.Function
	impls   map[string][]*ssa.Function // interface method name → repo implementations
	changed bool
	final   bool
	libUsed map[string]bool
}

func hasPointers(t types.Type) bool {
	switch u := t.Underlying().(type) {
	case *types.Pointer, *types.Slice, *types.Map, *types.Chan, *types.Interface, *types.Signature:
		return true
	case *types.Struct:
		for i := 0; i < u.NumFields(); i++ {
			if hasPointers(u.Field(i).Type()) {
				return true
			}
		}
	case *types.Array:
		return hasPointers(u.Elem())
	case *types.Tuple:
		for i := 0; i < u.Len(); i++ {
			if hasPointers(u.At(i).Type()) {
				return true
			}
		}
	case *types.Basic:
		return u.Kind() == types.UnsafePointer
	}
	return false
}

// pure library functions: read their arguments only
var libPure = map[string]bool{
	"sort.Search": true, "sort.SearchInts": true, "sort.IntsAreSorted": true, "sort.SliceIsSorted": true,
	"bytes.Compare": true, "bytes.Equal": true, "bytes.NewReader": true, "bytes.NewBuffer": true,
	"strings.HasPrefix": true, "strings.Compare": true, "strings.Repeat": true, "strings.Join": true,
	"fmt.Sprintf": true, "fmt.Sprint": true, "fmt.Sprintln": true, "fmt.Errorf": true, "errors.New": true,
	"math.Sqrt": true, "math.Floor": true, "math.Ceil": true, "math.Pow": true, "math.Log": true, "math.Abs": true, "math.Inf": true, "math.MaxInt": true,
	"math/bits.LeadingZeros64": true, "math/bits.TrailingZeros": true, "math/bits.Len": true, "math/bits.Len64": true, "math/bits.OnesCount64": true,
	"math/bits.Mul64": true, "math/bits.Div64": true, "math/bits.TrailingZeros64": true, "math/bits.LeadingZeros": true,
	"strconv.Itoa": true, "strconv.Atoi": true, "strconv.Quote": true,
	"container/list.New": true, "text/tabwriter.NewWriter": true,
	"encoding/gob.NewEncoder": true, "encoding/gob.NewDecoder": true,
	"unicode/utf8.RuneLen": true,
}

// library functions/methods that write (only) the listed argument positions
var libWrites = map[string][]int{
	"sort.Ints": {0}, "sort.Sort": {0}, "sort.Slice": {0}, "sort.Stable": {0}, "sort.SliceStable": {0}, "sort.Strings": {0},
	"io.WriteString": {0}, "fmt.Fprintf": {0}, "fmt.Fprint": {0}, "fmt.Fprintln": {0},
	"io.ReadFull": {0, 1},
	"container/heap.Init": {0}, "container/heap.Push": {0}, "container/heap.Pop": {0}, "container/heap.Fix": {0}, "container/heap.Remove": {0},
}

func (fe *FrameEngine) libName(f *ssa.Function) string {
	if f.Pkg == nil {
		if recv := f.Signature.Recv(); recv != nil {
			return recv.Type().String() + "." + f.Name()
		}
		return f.String()
	}
	if recv := f.Signature.Recv(); recv != nil {
		t := recv.Type()
		if p, ok := t.(*types.Pointer); ok {
			t = p.Elem()
		}
		if n, ok := t.(*types.Named); ok {
			return f.Pkg.Pkg.Path() + "." + n.Obj().Name() + "." + f.Name()
		}
	}
	return f.Pkg.Pkg.Path() + "." + f.Name()
}

func isRepoFn(f *ssa.Function) bool {
	if f == nil {
		return false
	}
	if f.Pkg != nil {
		return strings.HasPrefix(f.Pkg.Pkg.Path(), modPath)
	}
	if f.Parent() != nil {
		return isRepoFn(f.Parent())
	}
	// methods of instantiated / synthetic wrappers
	if recv := f.Signature.Recv(); recv != nil {
		t := recv.Type()
		if p, ok := t.(*types.Pointer); ok {
			t = p.Elem()
		}
		if n, ok := t.(*types.Named); ok && n.Obj().Pkg() != nil {
			return strings.HasPrefix(n.Obj().Pkg().Path(), modPath)
		}
	}
	return false
}

func NewFrameEngine(repoDir string) (*FrameEngine, error) {
	cfg := &packages.Config{Mode: packages.LoadAllSyntax, Dir: repoDir, BuildFlags: []string{"-tags=verif"},
		Env: append(os.Environ(), "GOFLAGS=-mod=mod", "GOPROXY=off", "GOSUMDB=off", "GOTOOLCHAIN=local")}
	pkgs, err := packages.Load(cfg, "./...")
	if err != nil {
		return nil, err
	}
	if n := packages.PrintErrors(pkgs); n > 0 {
		return nil, fmt.Errorf("%d package errors", n)
	}
	prog, spkgs := ssautil.AllPackages(pkgs, ssa.InstantiateGenerics)
	prog.Build()
	fe := &FrameEngine{prog: prog, fset: prog.Fset, sums: map[*ssa.Function]*fnSummary{}, impls: map[string][]*ssa.Function{}, libUsed: map[string]bool{}}
	for _, sp := range spkgs {
		if sp != nil {
			fe.pkgs = append(fe.pkgs, sp)
		}
	}
	// all repo functions: members, methods, anonymous functions
	seen := map[*ssa.Function]bool{}
	var add func(f *ssa.Function)
	add = func(f *ssa.Function) {
		if f == nil || seen[f] || len(f.Blocks) == 0 {
			return
		}
		seen[f] = true
		fe.all = append(fe.all, f)
		for _, a := range f.AnonFuncs {
			add(a)
		}
	}
	for _, sp := range fe.pkgs {
		for _, m := range sp.Members {
			switch m := m.(type) {
			case *ssa.Function:
				add(m)
			case *ssa.Type:
				for _, t := range []types.Type{m.Type(), types.NewPointer(m.Type())} {
					ms := prog.MethodSets.MethodSet(t)
					for k := 0; k < ms.Len(); k++ {
						f := prog.MethodValue(ms.At(k))
						if f != nil && f.Synthetic == "" {
							add(f)
							fe.impls[f.Name()] = append(fe.impls[f.Name()], f)
						}
					}
				}
			}
		}
	}
	sort.Slice(fe.all, func(i, j int) bool { return fe.all[i].String() < fe.all[j].String() })
	for _, f := range fe.all {
		fe.sums[f] = &fnSummary{fn: f, nparams: len(f.Params) + len(f.FreeVars), flows: make([]prov, len(f.Params)+len(f.FreeVars)), libCalls: map[string]bool{}}
	}
	// fixpoint over summaries
	for iter := 0; iter < 50; iter++ {
		fe.changed = false
		for _, f := range fe.all {
			fe.analyse(f)
		}
		if !fe.changed {
			break
		}
	}
	// final passes: stores through pointers of no known provenance count as unknown
	fe.final = true
	for iter := 0; iter < 10; iter++ {
		fe.changed = false
		for _, f := range fe.all {
			fe.analyse(f)
		}
		if !fe.changed {
			break
		}
	}
	return fe, nil
}

// mapProv translates callee-level provenance into the caller's terms.
func mapProv(p prov, args []prov) prov {
	out := p & (pFresh | pGlobal | pUnknown | pSync)
	for i := range args {
		if p&pParam(i) != 0 {
			out |= args[i]
		}
	}
	// parameter bits beyond the known arguments: unknown
	for i := len(args); i <= 50; i++ {
		if p&pParam(i) != 0 {
			out |= pUnknown
		}
	}
	return out
}

// pv is the provenance of one value: memory classes (c: parameters, global,
// unknown, sync) plus the set of allocation sites of this function (s) it may
// point to. Bit 63 of s is the overflow bucket shared by sites beyond 62.
type pv struct {
	c prov
	s uint64
}

func (a pv) or(b pv) pv    { return pv{a.c | b.c, a.s | b.s} }
func (a pv) empty() bool  { return a.c == 0 && a.s == 0 }
func (a pv) eq(b pv) bool { return a.c == b.c && a.s == b.s }

func (fe *FrameEngine) analyse(f *ssa.Function) {
	sum := fe.sums[f]
	vp := map[ssa.Value]pv{}
	for i, p := range f.Params {
		if hasPointers(p.Type()) {
			vp[p] = pv{c: pParam(i)}
		}
	}
	for i, fv := range f.FreeVars {
		vp[fv] = pv{c: pParam(len(f.Params) + i)} // a free variable is a pointer to the captured variable
	}
	siteIdx := map[ssa.Instruction]uint{}
	site := func(in ssa.Instruction) pv {
		k, ok := siteIdx[in]
		if !ok {
			k = uint(len(siteIdx))
			if k > 63 {
				k = 63
			}
			siteIdx[in] = k
		}
		if k > 63 {
			k = 63
		}
		return pv{s: 1 << k}
	}
	var siteContent [64]pv
	paramContent := make([]pv, sum.nparams)
	for i := range paramContent {
		paramContent[i] = pv{c: sum.flows[i] &^ pFresh}
	}
	newWrites := prov(0)
	var newRes prov
	var sites []writeSite
	flowFresh := make([]bool, sum.nparams)

	get := func(v ssa.Value) pv {
		switch v.(type) {
		case *ssa.Global:
			return pv{c: pGlobal}
		case *ssa.Const, *ssa.Builtin, *ssa.Function:
			return pv{}
		}
		return vp[v]
	}
	// what a load through a pointer of provenance p may yield
	loadFrom := func(p pv) pv {
		out := pv{c: p.c}
		for k := uint(0); k < 64; k++ {
			if p.s&(1<<k) != 0 {
				out = out.or(siteContent[k])
			}
		}
		for i := 0; i < sum.nparams; i++ {
			if p.c&pParam(i) != 0 {
				out = out.or(paramContent[i])
			}
		}
		return out
	}
	// transitive closure of memory classes reachable from p
	var reach func(p pv, depth int) prov
	reach = func(p pv, depth int) prov {
		out := p.c
		if depth > 3 {
			return out
		}
		for k := uint(0); k < 64; k++ {
			if p.s&(1<<k) != 0 {
				c := siteContent[k]
				c.s &^= 1 << k
				out |= reach(c, depth+1)
			}
		}
		return out
	}
	recordStore := func(target pv, val pv, pos token.Pos, what string) {
		if target.empty() {
			if !fe.final {
				return // provenance not propagated yet; decided in the final pass
			}
			target = pv{c: pUnknown}
		}
		for k := uint(0); k < 64; k++ {
			if target.s&(1<<k) != 0 {
				siteContent[k] = siteContent[k].or(val)
			}
		}
		for i := 0; i < sum.nparams; i++ {
			if target.c&pParam(i) != 0 {
				paramContent[i] = paramContent[i].or(val)
				if val.s != 0 {
					flowFresh[i] = true
				}
			}
		}
		if target.c != 0 {
			newWrites |= target.c
			sites = append(sites, writeSite{pos, what, target.c})
		}
	}
	set := func(v ssa.Value, p pv) bool {
		n := vp[v].or(p)
		if !n.eq(vp[v]) {
			vp[v] = n
			return true
		}
		return false
	}

	for round := 0; round < 40; round++ {
		changed := false
		oldSC := siteContent
		oldPC := append([]pv{}, paramContent...)
		sites = sites[:0]
		newWrites = 0
		newRes = 0
		for _, b := range f.Blocks {
			for _, in := range b.Instrs {
				switch in := in.(type) {
				case *ssa.Alloc, *ssa.MakeSlice, *ssa.MakeMap, *ssa.MakeChan:
					changed = set(in.(ssa.Value), site(in)) || changed
				case *ssa.MakeClosure:
					st := site(in)
					for _, bnd := range in.Bindings {
						recordStore(st, get(bnd), in.Pos(), "closure binding")
					}
					changed = set(in, st) || changed
				case *ssa.MakeInterface:
					changed = set(in, get(in.X)) || changed
				case *ssa.FieldAddr:
					changed = set(in, get(in.X)) || changed
				case *ssa.IndexAddr:
					changed = set(in, get(in.X)) || changed
				case *ssa.Slice:
					changed = set(in, get(in.X)) || changed
				case *ssa.ChangeType:
					changed = set(in, get(in.X)) || changed
				case *ssa.ChangeInterface:
					changed = set(in, get(in.X)) || changed
				case *ssa.Convert:
					if hasPointers(in.Type()) {
						changed = set(in, get(in.X).or(site(in))) || changed
					}
				case *ssa.SliceToArrayPointer:
					changed = set(in, get(in.X)) || changed
				case *ssa.TypeAssert:
					changed = set(in, get(in.X)) || changed
				case *ssa.Field:
					if hasPointers(in.Type()) {
						changed = set(in, get(in.X)) || changed
					}
				case *ssa.Index:
					if hasPointers(in.Type()) {
						changed = set(in, loadFrom(get(in.X))) || changed
					}
				case *ssa.Lookup:
					if hasPointers(in.Type()) {
						changed = set(in, loadFrom(get(in.X))) || changed
					}
				case *ssa.Extract:
					if hasPointers(in.Type()) {
						changed = set(in, get(in.Tuple)) || changed
					}
				case *ssa.Phi:
					var p pv
					for _, e := range in.Edges {
						p = p.or(get(e))
					}
					changed = set(in, p) || changed
				case *ssa.UnOp:
					if (in.Op == token.MUL || in.Op == token.ARROW) && hasPointers(in.Type()) {
						changed = set(in, loadFrom(get(in.X))) || changed
					}
				case *ssa.Range, *ssa.Next:
					if v, ok := in.(ssa.Value); ok {
						var p pv
						for _, op := range in.Operands(nil) {
							if *op != nil {
								p = p.or(get(*op))
							}
						}
						changed = set(v, loadFrom(p)) || changed
					}
				case *ssa.Store:
					var val pv
					if hasPointers(in.Val.Type()) {
						val = get(in.Val)
					}
					recordStore(get(in.Addr), val, in.Pos(), "store")
				case *ssa.MapUpdate:
					recordStore(get(in.Map), get(in.Key).or(get(in.Value)), in.Pos(), "map update")
				case *ssa.Send:
					recordStore(get(in.Chan), get(in.X), in.Pos(), "channel send")
				case *ssa.Return:
					for _, r := range in.Results {
						if hasPointers(r.Type()) {
							p := get(r)
							newRes |= reach(p, 0)
							if p.s != 0 {
								newRes |= pFresh
							}
						}
					}
				case *ssa.Call, *ssa.Go, *ssa.Defer:
					var cc *ssa.CallCommon
					var val ssa.Value
					switch x := in.(type) {
					case *ssa.Call:
						cc, val = &x.Call, x
					case *ssa.Go:
						cc = &x.Call
					case *ssa.Defer:
						cc = &x.Call
					}
					rp := fe.call(f, sum, cc, in, get, loadFrom, reach, recordStore, site)
					if val != nil && hasPointers(val.Type()) {
						changed = set(val, rp) || changed
					}
				}
			}
		}
		for k := range siteContent {
			if !siteContent[k].eq(oldSC[k]) {
				changed = true
			}
		}
		for i := range paramContent {
			if !paramContent[i].eq(oldPC[i]) {
				changed = true
			}
		}
		if !changed {
			break
		}
	}
	if newWrites != sum.writes || newRes|sum.res != sum.res {
		fe.changed = true
	}
	sum.writes = newWrites
	sum.res |= newRes
	for i := range paramContent {
		fl := reach(paramContent[i], 0)
		if paramContent[i].s != 0 || flowFresh[i] {
			fl |= pFresh
		}
		if fl|sum.flows[i] != sum.flows[i] {
			sum.flows[i] |= fl
			fe.changed = true
		}
	}
	sum.sites = append([]writeSite{}, sites...)
}

// mapPV translates a callee-level class set into the caller's provenance.
func mapPV(p prov, args []pv, fresh pv) pv {
	out := pv{c: p & (pGlobal | pUnknown | pSync)}
	if p&pFresh != 0 {
		out = out.or(fresh)
	}
	for i := range args {
		if p&pParam(i) != 0 {
			out = out.or(args[i])
		}
	}
	for i := len(args); i <= 50; i++ {
		if p&pParam(i) != 0 {
			out.c |= pUnknown
		}
	}
	return out
}

// call applies a callee summary (or library policy) at a call site and returns
// the provenance of the result.
func (fe *FrameEngine) call(f *ssa.Function, sum *fnSummary, cc *ssa.CallCommon, in ssa.Instruction, get func(ssa.Value) pv, loadFrom func(pv) pv,
	reach func(pv, int) prov, recordStore func(pv, pv, token.Pos, string), site func(ssa.Instruction) pv) pv {
	pos := in.Pos()
	var args []pv
	if cc.IsInvoke() {
		args = append(args, get(cc.Value))
	}
	for _, a := range cc.Args {
		if hasPointers(a.Type()) {
			args = append(args, get(a))
		} else {
			args = append(args, pv{})
		}
	}
	freshHere := site(in)
	applyRepo := func(callee *ssa.Function, extra []pv) pv {
		cs := fe.sums[callee]
		if cs == nil {
			return pv{c: pUnknown}
		}
		a := append(append([]pv{}, args...), extra...)
		// the callee writes memory that, seen from here, is what its written parameters point to
		for i := 0; i < cs.nparams && i < len(a); i++ {
			if cs.writes&pParam(i) != 0 || cs.flows[i] != 0 {
				recordStore(a[i], mapPV(cs.flows[i], a, freshHere), pos, "callee "+callee.String()+" writes its argument")
			}
		}
		if w := cs.writes & (pGlobal | pUnknown | pSync); w != 0 {
			recordStore(pv{c: w}, pv{}, pos, "callee "+callee.String()+" writes")
		}
		res := mapPV(cs.res, a, freshHere)
		if cs.res&pFresh != 0 {
			// the fresh result may itself reach whatever else the result reaches
			recordStore(freshHere, mapPV(cs.res&^pFresh, a, pv{}), pos, "result content")
		}
		return res
	}
	// builtins
	if b, ok := cc.Value.(*ssa.Builtin); ok {
		switch b.Name() {
		case "append":
			var val pv
			if sl, ok := cc.Args[0].Type().Underlying().(*types.Slice); ok && len(cc.Args) > 1 && hasPointers(sl.Elem()) {
				val = loadFrom(get(cc.Args[1]))
			}
			dst := get(cc.Args[0])
			// grows into a fresh array that also holds the old elements
			recordStore(freshHere, loadFrom(dst).or(val), pos, "append (fresh array)")
			if !dst.empty() {
				recordStore(dst, val, pos, "append (may write in place)")
			}
			return dst.or(freshHere)
		case "copy":
			var val pv
			if sl, ok := cc.Args[0].Type().Underlying().(*types.Slice); ok && hasPointers(sl.Elem()) {
				val = loadFrom(get(cc.Args[1]))
			}
			recordStore(get(cc.Args[0]), val, pos, "copy")
			return pv{}
		case "delete", "close":
			recordStore(get(cc.Args[0]), pv{}, pos, b.Name())
			return pv{}
		}
		return pv{}
	}
	if cc.IsInvoke() {
		name := cc.Method.Name()
		recvT := cc.Value.Type()
		var out pv
		n := 0
		if named, ok := recvT.(*types.Named); ok && named.Obj().Pkg() != nil && strings.HasPrefix(named.Obj().Pkg().Path(), modPath) {
			iface := recvT.Underlying().(*types.Interface)
			for _, impl := range fe.impls[name] {
				rt := impl.Signature.Recv().Type()
				if types.Implements(rt, iface) || types.Implements(types.NewPointer(rt), iface) {
					out = out.or(applyRepo(impl, nil))
					n++
				}
			}
			if n > 0 {
				return out
			}
		}
		// library interfaces
		switch name {
		case "Write", "WriteString", "WriteByte":
			recordStore(args[0], pv{}, pos, "io.Writer."+name)
			return pv{}
		case "Read", "ReadByte":
			recordStore(args[0], pv{}, pos, "io.Reader."+name)
			for _, a := range args[1:] {
				if !a.empty() {
					recordStore(a, pv{}, pos, "io.Reader."+name+" buffer")
				}
			}
			return pv{}
		case "Error", "String", "Len", "Less":
			return pv{}
		case "Swap", "Push", "Pop":
			recordStore(args[0], pv{}, pos, "interface "+name)
			return args[0]
		}
		sum.libCalls["interface method "+recvT.String()+"."+name+" (assumed to write only its receiver)"] = true
		recordStore(args[0], pv{}, pos, "interface method "+name)
		return args[0].or(freshHere)
	}
	callee := cc.StaticCallee()
	if callee == nil {
		// dynamic call of a function value
		if fv, ok := cc.Value.(*ssa.MakeClosure); ok {
			var extra []pv
			for _, b := range fv.Bindings {
				extra = append(extra, get(b))
			}
			return applyRepo(fv.Fn.(*ssa.Function), extra)
		}
		// a locally created closure held in a variable: apply every anonymous
		// function of this function with a matching signature, conservatively
		if get(cc.Value).s != 0 {
			var out pv
			for _, a := range f.AnonFuncs {
				if types.Identical(a.Signature, cc.Signature()) {
					extra := make([]pv, len(a.FreeVars))
					for i := range extra {
						extra[i] = loadFrom(get(cc.Value))
					}
					out = out.or(applyRepo(a, extra))
				}
			}
			return out
		}
		// a callback received as a parameter or loaded from a field: assumption A4
		sum.libCalls["callback "+cc.Value.Name()+" in "+f.Name()+" (A4: writes no tracked memory)"] = true
		return pv{}
	}
	if isRepoFn(callee) && fe.sums[callee] != nil {
		return applyRepo(callee, nil)
	}
	if strings.HasPrefix(callee.Name(), "ssa:") {
		return pv{}
	}
	// library function
	name := fe.libName(callee)
	fe.libUsed[name] = true
	if strings.HasPrefix(name, "math/rand.") && callee.Signature.Recv() == nil {
		recordStore(pv{c: pSync}, pv{}, pos, "math/rand global source")
		return freshHere
	}
	if libPure[name] {
		out := freshHere
		for _, a := range args {
			out = out.or(a)
		}
		return out
	}
	if ws, ok := libWrites[name]; ok {
		for _, i := range ws {
			if i < len(args) {
				recordStore(args[i], pv{}, pos, "library "+name)
			}
		}
		return freshHere
	}
	// default policy: a library function writes only memory reachable from its
	// receiver (methods) or from its pointer arguments (functions), and returns
	// memory reachable from them or fresh memory.
	sum.libCalls[name+" (default policy: may write memory reachable from its receiver/arguments)"] = true
	out := freshHere
	for i, a := range args {
		if !a.empty() {
			if callee.Signature.Recv() != nil && i > 0 {
				out = out.or(a)
				continue
			}
			recordStore(a, pv{}, pos, "library "+name)
			out = out.or(a)
		}
	}
	return out
}

// FrameObligations produces the obligations for the given packages.
// readOnly maps "pkg.Func" / "pkg.(*T).M" to the parameter names that must not be written.
// freshResults: functions whose returned references must point only into memory allocated by
// the call itself (never into a parameter, the receiver or package state).
var frameFreshResults = map[string]bool{}

// FrameListFresh lists the functions of the packages whose results are fresh in the current tree.
var frameListFresh []string

func (fe *FrameEngine) FrameObligations(pkgNames []string, readOnly map[string][]string, allowSync map[string]bool) ([]*Obligation, []string) {
	var obls []*Obligation
	want := map[string]bool{}
	for _, p := range pkgNames {
		want[p] = true
	}
	assum := map[string]bool{}
	mk := func(unit, name, text, pos string, ok bool, detail string) {
		o := &Obligation{Fn: unit, Name: name, Kind: "frame", Guard: True, Goal: True, Text: text, Pos: pos, Solver: "frame-engine"}
		if ok {
			o.Result = "unsat"
		} else {
			o.Result = "sat"
			o.Model = detail
		}
		obls = append(obls, o)
	}
	for _, f := range fe.all {
		pkg := f.Pkg
		if pkg == nil && f.Parent() != nil {
			pkg = f.Parent().Pkg
		}
		if pkg == nil {
			continue
		}
		rel := strings.TrimPrefix(strings.TrimPrefix(pkg.Pkg.Path(), modPath), "/")
		if !want[rel] && !want[pkg.Pkg.Name()] {
			continue
		}
		if f.Name() == "init" || strings.HasPrefix(f.Name(), "init#") {
			continue
		}
		if f.Parent() != nil {
			continue // closures are accounted for in their enclosing function
		}
		sum := fe.sums[f]
		key := pkg.Pkg.Name() + "." + funcKey(f)
		unit := "frame:" + rel
		pos := fe.fset.Position(f.Pos())
		ps := fmt.Sprintf("%s:%d", shortFile(pos.Filename), pos.Line)
		detail := func(mask prov) string {
			var d []string
			for _, s := range sum.sites {
				if s.p&mask != 0 {
					pp := fe.fset.Position(s.pos)
					d = append(d, fmt.Sprintf("%s:%d %s -> %s", shortFile(pp.Filename), pp.Line, s.what, s.p&mask))
				}
			}
			if len(d) > 6 {
				d = d[:6]
			}
			return strings.Join(d, "; ")
		}
		mk(unit, key+"/frame:no-global-write", "no store, copy, append or send targets memory reachable from a package-level variable", ps, sum.writes&pGlobal == 0, detail(pGlobal))
		mk(unit, key+"/frame:no-unknown-write", "every written location has a known provenance (fresh, or reachable from a parameter)", ps, sum.writes&pUnknown == 0, detail(pUnknown))
		if sum.writes&pSync != 0 && !allowSync[key] {
			mk(unit, key+"/frame:no-shared-library-state", "does not use library-internal shared state (math/rand global source)", ps, false, detail(pSync))
		}
		mk(unit, key+"/frame:result-not-global", "returned references do not point into package-level state", ps, sum.res&(pGlobal|pUnknown) == 0, "result provenance: "+sum.res.String())
		if sum.res != 0 && sum.res&^pFresh == 0 {
			frameListFresh = append(frameListFresh, key)
		}
		if frameFreshResults[key] {
			mk(unit, key+"/frame:result-fresh", "returned references point only into memory allocated by this call (not into an argument, the receiver or package state)", ps, sum.res&^pFresh == 0, "result provenance: "+sum.res.String())
		}
		if ro, ok := readOnly[key]; ok {
			for _, pname := range ro {
				idx := -1
				for i, p := range f.Params {
					if p.Name() == pname {
						idx = i
					}
				}
				if idx < 0 {
					mk(unit, key+"/frame:read-only("+pname+")", "parameter exists", ps, false, "no parameter named "+pname)
					continue
				}
				mk(unit, key+"/frame:read-only("+pname+")", "nothing reachable from "+pname+" is written (transitively through callees)", ps, sum.writes&pParam(idx) == 0, detail(pParam(idx)))
			}
		}
		for l := range sum.libCalls {
			assum[l] = true
		}
	}
	var as []string
	for a := range assum {
		as = append(as, "frame engine: "+a)
	}
	sort.Strings(as)
	return obls, as
}

// AutoReadOnly derives the read-only expectations from the API shape:
//  - observer methods of every graph representation (the Graph interface, Copy,
//    InducedSubgraph) must not write their receiver;
//  - every exported function of package graph that takes a graph.Graph must not
//    write that graph;
//  - (*Dawg).Lookup, NumberOfWords and Search must not write the Dawg.
func (fe *FrameEngine) AutoReadOnly() map[string][]string {
	out := map[string][]string{}
	observers := map[string]bool{"N": true, "M": true, "IsEdge": true, "Neighbours": true, "Degrees": true, "Copy": true, "InducedSubgraph": true}
	for _, f := range fe.all {
		if f.Pkg == nil || f.Parent() != nil {
			continue
		}
		key := f.Pkg.Pkg.Name() + "." + funcKey(f)
		switch f.Pkg.Pkg.Name() {
		case "graph":
			if f.Signature.Recv() != nil {
				if observers[f.Name()] && len(f.Params) > 0 {
					out[key] = append(out[key], f.Params[0].Name())
				}
				continue
			}
			if !token.IsExported(f.Name()) {
				continue
			}
			for _, p := range f.Params {
				if n, ok := p.Type().(*types.Named); ok && n.Obj().Name() == "Graph" && n.Obj().Pkg() != nil && n.Obj().Pkg().Name() == "graph" {
					out[key] = append(out[key], p.Name())
				}
			}
		case "dawg":
			if f.Signature.Recv() != nil && (f.Name() == "Lookup" || f.Name() == "NumberOfWords" || f.Name() == "Search") && strings.Contains(funcKey(f), "Dawg") {
				out[key] = append(out[key], f.Params[0].Name())
			}
		}
	}
	return out
}
