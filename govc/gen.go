package main

// VC generator core: state, types→sorts, obligations, merging.

import (
	"os"
	"fmt"
	"go/token"
	"go/types"
	"math/big"
	"sort"
	"strings"

	"golang.org/x/tools/go/ssa"
)

type Unsupported struct{ Msg string }

func (u Unsupported) Error() string { return "unsupported: " + u.Msg }

func unsupported(format string, args ...interface{}) {
	panic(Unsupported{fmt.Sprintf(format, args...)})
}

type SpecError struct{ Msg string }

func (u SpecError) Error() string { return "contract error: " + u.Msg }

func specErr(format string, args ...interface{}) {
	panic(SpecError{fmt.Sprintf(format, args...)})
}

// Addr is a symbolic address (value of an SSA pointer-typed register that is
// only used for loads and stores).
type Addr struct {
	Kind  string // local | elem | field | cell
	Key   string // local: variable key
	Heap  string // elem/field/cell: heap name
	Ref   *Term  // elem: array ref; field/cell: pointer
	Idx   *Term  // elem: absolute index
	Typ   types.Type
	Alloc *ssa.Alloc
}

type Val struct {
	T     *Term
	Typ   types.Type
	Addr  *Addr
	Tuple []Val
	Arr   *Term // explicit element array (spec-function slice parameters)
	// struct value held as fields
	Fields map[string]Val
	Fn     *ssa.Function // static function value / closure
	GHeap  string        // ghost array: contents live in this ghost heap
}

type State struct {
	vars  map[string]*Term
	heaps map[string]*Term
	alloc *Term
}

func (s *State) clone() *State {
	n := &State{vars: map[string]*Term{}, heaps: map[string]*Term{}, alloc: s.alloc}
	for k, v := range s.vars {
		n.vars[k] = v
	}
	for k, v := range s.heaps {
		n.heaps[k] = v
	}
	return n
}

type assume struct {
	guard *Term
	f     *Term
	tag   string
	block *ssa.BasicBlock
}

type Obligation struct {
	Fn       string
	Name     string
	Kind     string
	Guard    *Term
	Goal     *Term
	NAssume  int
	NDef     int
	NDecl    int
	Pos      string
	Text     string
	vc       *FnVC
	Result   string // unsat (proved) | sat | unknown | timeout | error
	Solver   string
	Seconds  float64
	Model    string
	Expected string // "" or "known-finding"
	Block    *ssa.BasicBlock
	Split    []*Term
	SplitFirst bool
	RawQuery string
}

type edgeInfo struct {
	cond *Term
	st   *State
}

type FnVC struct {
	g        *Gen
	fn       *ssa.Function
	spec     *FuncSpec
	sf       *SpecFile
	cfg      *CFG
	decls    []string
	declared map[string]string
	defs     []*Term
	assumes  []assume
	obls     []*Obligation
	smokes   []*Obligation
	regs     map[ssa.Value]Val
	entry    *State
	entryEnv *Env
	edges    map[[2]int]*edgeInfo
	reach    map[*ssa.BasicBlock]*Term
	counters map[string]int
	locals   map[*ssa.Alloc]string // alloc → var key (scalar locals)
	lstruct  map[*ssa.Alloc]bool   // struct local split into fields
	heapSorts map[string]string
	loopInfo map[*Loop]*loopState
	mods     []modTarget
	modAll   bool
	name     string
	results  []Val
	usedSpecs map[string]bool
	warnings []string
	ghostVars map[string]types.Type
	curBlock *ssa.BasicBlock
	curGuard *Term
	callOrd  map[string]int
	blockCases map[*ssa.BasicBlock][]*Term
	defBlocks []*ssa.BasicBlock
	paramConsts map[string]bool
	curLoopState *loopState
	refHeaps map[string]bool
	ghostSeq map[string]bool // ghost variables of kind "seq" (SMT arrays)
	fnCases  []*Term
	ancestors map[*ssa.BasicBlock]map[*ssa.BasicBlock]bool
	pkg      *types.Package
}

type loopState struct {
	cases   []*Term // loop-level case split (conditions on the head state)
	pre     *State
	head    *State
	variant []*Term
	preEnv  *Env
	autos   []func(st *State) *Term
	frame   map[string]*loopFrame
}

// loopFrame: while the loop runs, stores into heap may only hit these arrays
// (their refs at loop entry) or memory allocated since loop entry.
type loopFrame struct {
	alloc *Term
	refs  []*Term
}

type modTarget struct {
	kind string // array | cell | field
	heap string
	ref  *Term
	expr string
	elem types.Type // element / pointee type (nil for ghost targets)
}

// ---------- types ----------

var two = big.NewInt(2)

func pow2big(n uint) *big.Int { return new(big.Int).Lsh(big.NewInt(1), n) }

type intInfo struct {
	signed bool
	bits   uint
}

func basicInt(t types.Type) (intInfo, bool) {
	b, ok := t.Underlying().(*types.Basic)
	if !ok {
		return intInfo{}, false
	}
	switch b.Kind() {
	case types.Int, types.Int64, types.UntypedInt:
		return intInfo{true, 64}, true
	case types.Int32, types.UntypedRune:
		return intInfo{true, 32}, true
	case types.Int16:
		return intInfo{true, 16}, true
	case types.Int8:
		return intInfo{true, 8}, true
	case types.Uint, types.Uint64, types.Uintptr:
		return intInfo{false, 64}, true
	case types.Uint32:
		return intInfo{false, 32}, true
	case types.Uint16:
		return intInfo{false, 16}, true
	case types.Uint8:
		return intInfo{false, 8}, true
	}
	return intInfo{}, false
}

func (ii intInfo) min() *big.Int {
	if !ii.signed {
		return big.NewInt(0)
	}
	return new(big.Int).Neg(pow2big(ii.bits - 1))
}
func (ii intInfo) max() *big.Int {
	if !ii.signed {
		return new(big.Int).Sub(pow2big(ii.bits), big.NewInt(1))
	}
	return new(big.Int).Sub(pow2big(ii.bits-1), big.NewInt(1))
}

func isBool(t types.Type) bool {
	b, ok := t.Underlying().(*types.Basic)
	return ok && (b.Kind() == types.Bool || b.Kind() == types.UntypedBool)
}
func isString(t types.Type) bool {
	b, ok := t.Underlying().(*types.Basic)
	return ok && (b.Kind() == types.String || b.Kind() == types.UntypedString)
}
func isFloat(t types.Type) bool {
	b, ok := t.Underlying().(*types.Basic)
	return ok && (b.Info()&types.IsFloat != 0)
}

func sortOf(t types.Type) string {
	if _, ok := basicInt(t); ok {
		return SInt
	}
	if isBool(t) {
		return SBool
	}
	if isString(t) {
		return SSlice
	}
	if isFloat(t) {
		return SInt // abstracted: an opaque integer token
	}
	switch u := t.Underlying().(type) {
	case *types.Slice:
		return SSlice
	case *types.Pointer, *types.Interface, *types.Signature, *types.Chan, *types.Map:
		return SInt
	case *types.Basic:
		if u.Kind() == types.UnsafePointer || u.Kind() == types.UntypedNil {
			return SInt
		}
	case *types.Struct, *types.Array:
		return "STRUCT"
	case *types.Tuple:
		return "TUPLE"
	}
	unsupported("type %s", t)
	return ""
}

func sanitize(s string) string {
	var b strings.Builder
	for _, c := range s {
		switch {
		case c >= 'a' && c <= 'z', c >= 'A' && c <= 'Z', c >= '0' && c <= '9', c == '_':
			b.WriteRune(c)
		default:
			b.WriteRune('_')
		}
	}
	return b.String()
}

func elemKey(t types.Type) string {
	if isString(t) {
		return "str"
	}
	switch u := t.Underlying().(type) {
	case *types.Basic:
		if u.Kind() == types.Uint8 {
			return "uint8"
		}
		if ii, ok := basicInt(t); ok {
			s := "int"
			if !ii.signed {
				s = "uint"
			}
			return fmt.Sprintf("%s%d", s, ii.bits)
		}
		return sanitize(u.Name())
	case *types.Slice:
		return "sl_" + elemKey(u.Elem())
	case *types.Pointer:
		return "ptr"
	case *types.Interface:
		return "iface"
	case *types.Signature:
		return "func"
	case *types.Array:
		return "arr_" + elemKey(u.Elem())
	case *types.Struct:
		if n, ok := t.(*types.Named); ok {
			return "st_" + n.Obj().Name()
		}
		return "st_anon"
	}
	return sanitize(t.String())
}

func structName(t types.Type) string {
	if n, ok := t.(*types.Named); ok {
		return n.Obj().Name()
	}
	if p, ok := t.(*types.Alias); ok {
		return structName(types.Unalias(p))
	}
	return "anon"
}

func sliceHeap(elem types.Type) string { return "HS_" + elemKey(elem) }
func cellHeap(elem types.Type) string  { return "HP_" + elemKey(elem) }
func fieldHeap(st types.Type, field string) string {
	return "HF_" + structName(st) + "_" + field
}

// ---------- declarations ----------

func (v *FnVC) declare(name, sort string) *Term {
	if old, ok := v.declared[name]; ok {
		if old != sort {
			panic(fmt.Sprintf("redeclaration of %s: %s vs %s", name, old, sort))
		}
		return Var(name, sort)
	}
	v.declared[name] = sort
	v.decls = append(v.decls, fmt.Sprintf("(declare-fun %s () %s)", name, sort))
	return Var(name, sort)
}

// freshVal is fresh() with slices destructured into four integer constants.
func (v *FnVC) freshVal(prefix, sort string) *Term {
	if sort == SSlice {
		p := sanitize(prefix)
		return MkSlice(v.fresh(p+".ref", SInt), v.fresh(p+".off", SInt), v.fresh(p+".len", SInt), v.fresh(p+".cap", SInt))
	}
	return v.fresh(prefix, sort)
}

func (v *FnVC) fresh(prefix, sort string) *Term {
	v.counters["fresh"]++
	return v.declare(fmt.Sprintf("%s!%d", sanitize(prefix), v.counters["fresh"]), sort)
}

// define introduces a named constant equal to t (keeps terms small).
func (v *FnVC) define(prefix string, t *Term) *Term {
	if t.Op == "var" || t.Op == "lit" {
		return t
	}
	if t.Sort == SSlice {
		// slices stay destructured so that accessors simplify syntactically
		p := sanitize(prefix)
		return MkSlice(v.define(p+".ref", SRef(t)), v.define(p+".off", SOff(t)), v.define(p+".len", SLen(t)), v.define(p+".cap", SCap(t)))
	}
	c := v.fresh(prefix, t.Sort)
	v.defs = append(v.defs, App("=", SBool, c, t))
	v.defBlocks = append(v.defBlocks, v.curBlock)
	if t.Op == "store" {
		defOf[c.Name] = t
	}
	return c
}

func (v *FnVC) assume(guard, f *Term, tag string) {
	if f.IsTrue() {
		return
	}
	v.assumes = append(v.assumes, assume{guard, f, tag, v.curBlock})
}

func (v *FnVC) heapSortOf(name string) string {
	s, ok := v.heapSorts[name]
	if !ok {
		panic("unknown heap " + name)
	}
	return s
}

func (v *FnVC) heap(st *State, name, sort string) *Term {
	if old, ok := v.heapSorts[name]; ok && old != sort {
		panic(fmt.Sprintf("heap %s sort clash %s vs %s", name, old, sort))
	}
	v.heapSorts[name] = sort
	if h, ok := st.heaps[name]; ok {
		return h
	}
	return v.declare(name+"@0", sort)
}

func (v *FnVC) sliceHeapTerm(st *State, elem types.Type) (*Term, string) {
	name := sliceHeap(elem)
	es := sortOf(elem)
	if es == "STRUCT" {
		unsupported("slice of struct/array values (%s)", elem)
	}
	return v.heap(st, name, HeapSort(es)), name
}

// readArray returns the element array of the slice array `ref` for reading.
// Arrays that existed at entry and are not listed in modifies are, by the
// store-frame obligations (checked for every store, append, copy and call),
// unchanged throughout the function, so they are read from the entry heap:
// all states then share one term for the contents of a read-only input.
func (v *FnVC) readArray(st *State, elem types.Type, ref *Term) *Term {
	h, name := v.sliceHeapTerm(st, elem)
	if v.stableRef(name, ref) {
		h0 := v.heap(v.entry, name, v.heapSorts[name])
		return Select(h0, ref)
	}
	return Select(h, ref)
}

func (v *FnVC) stableRef(heap string, ref *Term) bool {
	if v.modAll || v.entry == nil {
		return false
	}
	key := ref.String()
	if !(ref.Op == "var" && (strings.HasPrefix(ref.Name, "strlit_") || v.paramConsts[ref.Name])) && !belowBase[key] {
		return false
	}
	for _, m := range v.mods {
		if m.heap != heap {
			continue
		}
		if m.ref.String() == key {
			return false
		}
		// a modifies target that is not syntactically comparable with ref: only
		// safe when both are distinct entry-time parameters
		if !(m.ref.Op == "var" && v.paramConsts[m.ref.Name] && ref.Op == "var" && v.paramConsts[ref.Name]) {
			return false
		}
	}
	return true
}

// noteEntryLoad: a slice read out of an entry-state heap points to memory that
// existed at entry.
func (v *FnVC) noteEntryLoad(h *Term, val *Term) {
	if h.Op == "var" && strings.HasSuffix(h.Name, "@0") && val != nil && val.Sort == SSlice {
		if os.Getenv("GOVC_NOENTRYLOAD") == "" { belowBase[SRef(val).String()] = true }
	}
}

// assumeClosure: memory safety of Go means every reference stored anywhere in
// the heap points to memory that has already been allocated. Assumed for the
// heaps of reference-typed elements at state st (entry, loop heads, after calls).
func (v *FnVC) assumeClosure(st *State, guard *Term, only map[string]bool) {
	var names []string
	for h := range v.heapSorts {
		names = append(names, h)
	}
	sort.Strings(names)
	for _, h := range names {
		if only != nil && !only[h] {
			continue
		}
		srt := v.heapSorts[h]
		ht := v.heap(st, h, srt)
		freshCounter++
		r := Var(fmt.Sprintf("cl?%d", freshCounter), SInt)
		k := Var(fmt.Sprintf("ck?%d", freshCounter), SInt)
		isRefHeap := v.refHeaps[h]
		switch srt {
		case HeapSort(SSlice):
			e := Select(Select(ht, r), k)
			v.assume(guard, Forall([]*Term{r, k}, And(Lt(SRef(e), st.alloc), App("valid-slice", SBool, e)), []*Term{e}), "heap-closure")
		case ArrSort(SSlice):
			e := Select(ht, r)
			v.assume(guard, Forall([]*Term{r}, And(Lt(SRef(e), st.alloc), App("valid-slice", SBool, e)), []*Term{e}), "heap-closure")
		case HeapSort(SInt):
			if isRefHeap {
				e := Select(Select(ht, r), k)
				v.assume(guard, Forall([]*Term{r, k}, And(Le(IntLit(0), e), Lt(e, st.alloc)), []*Term{e}), "heap-closure")
			}
		case ArrSort(SInt):
			if isRefHeap {
				e := Select(ht, r)
				v.assume(guard, Forall([]*Term{r}, And(Le(IntLit(0), e), Lt(e, st.alloc)), []*Term{e}), "heap-closure")
			}
		}
	}
}

// prescanHeaps registers every heap the function can touch (by static type).
func (v *FnVC) prescanHeaps() {
	reg := func(t types.Type) {
		defer func() { recover() }()
		for _, h := range refHeaps(t) {
			if _, ok := v.heapSorts[h.name]; !ok {
				v.heapSorts[h.name] = h.sort
			}
		}
		v.markRefHeaps(t)
	}
	for _, p := range v.fn.Params {
		reg(p.Type())
	}
	res := v.fn.Signature.Results()
	for i := 0; i < res.Len(); i++ {
		reg(res.At(i).Type())
	}
	for _, b := range v.fn.Blocks {
		for _, in := range b.Instrs {
			if val, ok := in.(ssa.Value); ok {
				reg(val.Type())
			}
		}
	}
}

// markRefHeaps records which Int-sorted heaps hold pointers (as opposed to numbers).
func (v *FnVC) markRefHeaps(t types.Type) {
	var rec func(t types.Type, d int)
	rec = func(t types.Type, d int) {
		if d > 4 {
			return
		}
		switch u := t.Underlying().(type) {
		case *types.Slice:
			if _, ok := u.Elem().Underlying().(*types.Pointer); ok {
				v.refHeaps[sliceHeap(u.Elem())] = true
			}
			rec(u.Elem(), d+1)
		case *types.Pointer:
			if s, ok := u.Elem().Underlying().(*types.Struct); ok {
				for i := 0; i < s.NumFields(); i++ {
					f := s.Field(i)
					if _, ok := f.Type().Underlying().(*types.Pointer); ok {
						v.refHeaps[fieldHeap(u.Elem(), f.Name())] = true
					}
					rec(f.Type(), d+1)
				}
				return
			}
			if _, ok := u.Elem().Underlying().(*types.Pointer); ok {
				v.refHeaps[cellHeap(u.Elem())] = true
			}
			rec(u.Elem(), d+1)
		}
	}
	rec(t, 0)
}

// typeInv: the constraints every well-typed Go value satisfies.
func (v *FnVC) typeInv(t *Term, typ types.Type, st *State) *Term {
	if ii, ok := basicInt(typ); ok {
		return And(Le(BigLit(ii.min()), t), Le(t, BigLit(ii.max())))
	}
	if isString(typ) {
		return And(App("valid-slice", SBool, t), Eq(SCap(t), SLen(t)), Lt(SRef(t), st.alloc))
	}
	switch typ.Underlying().(type) {
	case *types.Slice:
		return And(App("valid-slice", SBool, t), Lt(SRef(t), st.alloc))
	case *types.Pointer:
		return And(Le(IntLit(0), t), Lt(t, st.alloc))
	case *types.Interface, *types.Signature:
		return Le(IntLit(0), t)
	}
	return True
}

func zeroTerm(typ types.Type) *Term {
	switch sortOf(typ) {
	case SInt:
		return IntLit(0)
	case SBool:
		return False
	case SSlice:
		return NilSlice
	}
	unsupported("zero value of %s", typ)
	return nil
}

// ---------- obligations ----------

func (v *FnVC) posOf(p token.Pos) string {
	if !p.IsValid() {
		return ""
	}
	pp := v.fn.Prog.Fset.Position(p)
	return fmt.Sprintf("%s:%d", shortFile(pp.Filename), pp.Line)
}

func shortFile(f string) string {
	return strings.TrimPrefix(f, "/repo/")
}

func (v *FnVC) oblige(kind, name string, guard, goal *Term, pos, text string) *Obligation {
	o := &Obligation{Fn: v.name, Name: v.name + "/" + name, Kind: kind, Guard: guard, Goal: goal,
		NAssume: len(v.assumes), NDef: len(v.defs), NDecl: len(v.decls), Pos: pos, Text: text, vc: v, Block: v.curBlock}
	if v.curBlock != nil && guard == v.curGuard {
		o.Split = v.blockCases[v.curBlock]
	}
	if v.curBlock != nil && v.cfg != nil && kind != "split" {
		// innermost enclosing loop with a declared case split takes precedence
		var best *Loop
		for _, l := range v.cfg.Loops {
			if ls := v.loopInfo[l]; ls != nil && len(ls.cases) > 1 && l.Body[v.curBlock] {
				if best == nil || len(l.Body) < len(best.Body) {
					best = l
				}
			}
		}
		if best != nil {
			o.Split = v.loopInfo[best].cases
			o.SplitFirst = true
		}
	}
	if goal.IsTrue() || guard.IsFalse() {
		o.Result = "unsat"
		o.Solver = "trivial"
	}
	v.obls = append(v.obls, o)
	// once checked, the fact may be used downstream
	v.assume(guard, goal, "checked:"+name)
	return o
}

// smoke: `false` must NOT be provable here (vacuity guard); never assumed.
func (v *FnVC) smoke(name string, guard *Term, pos string) {
	// `opt dead=ret2,loop1.back1`: the contract claims this point is unreachable (dead code in
	// the program, e.g. a defensive return). The claim becomes a proof obligation instead of a
	// vacuity alarm; the obligations at that point still exist and hold trivially.
	if v.spec != nil && v.spec.Opts["dead"] != "" {
		for _, d := range strings.Split(v.spec.Opts["dead"], ",") {
			if "smoke@"+strings.TrimSpace(d) == name {
				v.oblige("dead", "dead@"+strings.TrimSpace(d), guard, False, pos, "this point is unreachable (claimed by `opt dead`)")
				return
			}
		}
	}
	o := &Obligation{Fn: v.name, Name: v.name + "/" + name, Kind: "smoke", Guard: guard, Goal: False,
		NAssume: len(v.assumes), NDef: len(v.defs), NDecl: len(v.decls), Pos: pos, Text: "reachable (vacuity guard: false must not be provable)", vc: v, Block: v.curBlock}
	v.smokes = append(v.smokes, o)
}

func (v *FnVC) ord(kind string) int {
	v.counters[kind]++
	return v.counters[kind]
}

// ---------- merging ----------

func (v *FnVC) mergeStates(b *ssa.BasicBlock, ins []*edgeInfo) *State {
	if len(ins) == 1 {
		return ins[0].st.clone()
	}
	out := &State{vars: map[string]*Term{}, heaps: map[string]*Term{}}
	mergeKey := func(name string, get func(s *State) *Term, sort string) *Term {
		first := get(ins[0].st)
		same := true
		for _, e := range ins[1:] {
			if get(e.st).String() != first.String() {
				same = false
				break
			}
		}
		if same {
			return first
		}
		t := get(ins[len(ins)-1].st)
		for i := len(ins) - 2; i >= 0; i-- {
			t = Ite(ins[i].cond, get(ins[i].st), t)
		}
		return v.define(fmt.Sprintf("%s@b%d", name, b.Index), t)
	}
	keys := map[string]bool{}
	for _, e := range ins {
		for k := range e.st.vars {
			keys[k] = true
		}
	}
	var ks []string
	for k := range keys {
		ks = append(ks, k)
	}
	sort.Strings(ks)
	for _, k := range ks {
		k := k
		missing := false
		for _, e := range ins {
			if _, ok := e.st.vars[k]; !ok {
				missing = true
			}
		}
		if missing {
			continue // variable not yet initialised on some path: dead there
		}
		out.vars[k] = mergeKey(k, func(s *State) *Term { return s.vars[k] }, "")
	}
	hkeys := map[string]bool{}
	for _, e := range ins {
		for k := range e.st.heaps {
			hkeys[k] = true
		}
	}
	ks = ks[:0]
	for k := range hkeys {
		ks = append(ks, k)
	}
	sort.Strings(ks)
	for _, k := range ks {
		k := k
		srt := v.heapSorts[k]
		out.heaps[k] = mergeKey(k, func(s *State) *Term { return v.heap(s, k, srt) }, srt)
	}
	out.alloc = mergeKey("alloc", func(s *State) *Term { return s.alloc }, SInt)
	return out
}
