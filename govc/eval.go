package main

// Contract expression evaluation: Expr → Term in an environment.

import (
	"sort"
	"os"
	"fmt"
	"go/token"
	"go/types"
	"math/big"
	"strings"
)

type Env struct {
	v      *FnVC
	g      *Gen
	pkg    *types.Package
	sf     *SpecFile
	vars   map[string]Val
	st     *State
	old    *Env
	pre    *Env
	iter   *Env // state at the start of the current loop iteration (use at back)
	local  func(name string) (Val, bool)
	freshBase *Term // allocation counter at the start of the call
	depth  int
}

func (e *Env) child() *Env {
	n := *e
	n.vars = map[string]Val{}
	for k, v := range e.vars {
		n.vars[k] = v
	}
	return &n
}

var tInt = types.Typ[types.Int]
var tBool = types.Typ[types.Bool]

func intVal(t *Term) Val  { return Val{T: t, Typ: tInt} }
func boolVal(t *Term) Val { return Val{T: t, Typ: tBool} }

func (e *Env) lookup(name string) (Val, bool) {
	if v, ok := e.vars[name]; ok {
		return v, true
	}
	if e.local != nil {
		if v, ok := e.local(name); ok {
			return v, true
		}
	}
	return Val{}, false
}

func (e *Env) specFunc(name string) *SpecFunc {
	if e.sf != nil {
		if f, ok := e.sf.Specs[name]; ok {
			return f
		}
	}
	if e.g != nil {
		if f, ok := e.g.globalSpecs[name]; ok {
			return f
		}
	}
	return nil
}

func (e *Env) ghostDecl(name string) *GhostDecl {
	if e.sf != nil {
		if g, ok := e.sf.Ghosts[name]; ok {
			return g
		}
	}
	if e.g != nil && e.g.extern != nil {
		if g, ok := e.g.extern.Ghosts[name]; ok {
			return g
		}
	}
	return nil
}

func (e *Env) bool(x *Expr) *Term {
	v := e.eval(x)
	if v.T == nil || v.T.Sort != SBool {
		specErr("expected boolean: %s", x)
	}
	return v.T
}

func (e *Env) int(x *Expr) *Term {
	v := e.eval(x)
	if v.T == nil || v.T.Sort != SInt {
		specErr("expected integer: %s (got %v)", x, v.T)
	}
	return v.T
}

func elemTypeOf(t types.Type) types.Type {
	if isString(t) {
		return types.Typ[types.Uint8]
	}
	switch u := t.Underlying().(type) {
	case *types.Slice:
		return u.Elem()
	case *types.Array:
		return u.Elem()
	case *types.Pointer:
		if a, ok := u.Elem().Underlying().(*types.Array); ok {
			return a.Elem()
		}
	}
	return nil
}

// elemArray returns the element array of slice value s in the env's state.
func (e *Env) elemArray(s Val) *Term {
	if s.Arr != nil {
		return s.Arr
	}
	if s.GHeap != "" {
		et := elemTypeOf(s.Typ)
		h := e.v.heap(e.st, s.GHeap, HeapSort(sortOf(et)))
		return Select(h, SRef(s.T))
	}
	et := elemTypeOf(s.Typ)
	if et == nil {
		specErr("not indexable: type %v", s.Typ)
	}
	if e.v == nil || e.st == nil {
		specErr("heap access outside a function context")
	}
	return e.v.readArray(e.st, et, SRef(s.T))
}

func (e *Env) index(s Val, i *Term) Val {
	et := elemTypeOf(s.Typ)
	if et == nil {
		specErr("not indexable: %v", s.Typ)
	}
	arr := e.elemArray(s)
	return Val{T: Select(arr, Add(SOff(s.T), i)), Typ: et}
}

func (e *Env) eval(x *Expr) Val {
	switch x.Kind {
	case "int":
		v, ok := new(big.Int).SetString(x.Name, 10)
		if !ok {
			specErr("bad integer %s", x.Name)
		}
		return intVal(BigLit(v))
	case "bool":
		return boolVal(BoolLit(x.Name == "true"))
	case "nil":
		return Val{T: IntLit(0), Typ: types.Typ[types.UntypedNil]}
	case "ident":
		if v, ok := e.lookup(x.Name); ok {
			return v
		}
		if c, ok := e.constant(x.Name); ok {
			return c
		}
		specErr("unknown identifier %q", x.Name)
	case "unop":
		switch x.Op {
		case "!":
			return boolVal(Not(e.bool(x.Args[0])))
		case "-":
			return intVal(Neg(e.int(x.Args[0])))
		}
	case "deref":
		p := e.eval(x.Args[0])
		pt, ok := p.Typ.Underlying().(*types.Pointer)
		if !ok {
			specErr("deref of non-pointer %s", x.Args[0])
		}
		if p.Addr != nil {
			return e.v.loadAddr(e.st, p.Addr)
		}
		es := sortOf(pt.Elem())
		if es == "STRUCT" {
			specErr("deref of struct pointer %s: use field access", x.Args[0])
		}
		h := e.v.heap(e.st, cellHeap(pt.Elem()), ArrSort(es))
		return Val{T: Select(h, p.T), Typ: pt.Elem()}
	case "binop":
		return e.binop(x)
	case "ite":
		c := e.bool(x.Args[0])
		a := e.eval(x.Args[1])
		b := e.eval(x.Args[2])
		return Val{T: Ite(c, a.T, b.T), Typ: a.Typ}
	case "index":
		s := e.eval(x.Args[0])
		i := e.int(x.Args[1])
		return e.index(s, i)
	case "slice":
		s := e.eval(x.Args[0])
		lo := IntLit(0)
		if x.Args[1] != nil {
			lo = e.int(x.Args[1])
		}
		hi := SLen(s.T)
		if x.Args[2] != nil {
			hi = e.int(x.Args[2])
		}
		return Val{T: MkSlice(SRef(s.T), Add(SOff(s.T), lo), Sub(hi, lo), Sub(SCap(s.T), lo)), Typ: s.Typ, Arr: s.Arr, GHeap: s.GHeap}
	case "field":
		return e.field(x)
	case "quant":
		if strings.HasSuffix(x.Op, "!") {
			lo, ok1 := e.int(x.Lo).IntVal()
			hi, ok2 := e.int(x.Hi).IntVal()
			if !ok1 || !ok2 || hi.Int64()-lo.Int64() > 4096 {
				specErr("%s needs literal bounds (at most 4096 values): %s", x.Op, x)
			}
			var parts []*Term
			for i := lo.Int64(); i < hi.Int64(); i++ {
				n := e.child()
				n.vars[x.Var] = intVal(IntLit(i))
				parts = append(parts, n.bool(x.Args[0]))
			}
			if x.Op == "forall!" {
				return boolVal(And(parts...))
			}
			return boolVal(Or(parts...))
		}
		n := e.child()
		freshCounter++
		k := Var(fmt.Sprintf("%s?%d", x.Var, freshCounter), SInt)
		lo := e.int(x.Lo)
		hi := e.int(x.Hi)
		n.vars[x.Var] = intVal(k)
		if os.Getenv("GOVC_NOOUTER") == "" {
			outerBound[k.Name] = true
		}
		body := n.bool(x.Args[0])
		delete(outerBound, k.Name)
		return boolVal(MkQuant(x.Op == "forall", k, lo, hi, body))
	case "call":
		return e.call(x)
	}
	specErr("cannot evaluate %s", x)
	return Val{}
}

func (e *Env) constant(name string) (Val, bool) {
	switch name {
	case "MaxInt":
		return intVal(BigLit(intInfo{true, 64}.max())), true
	case "MinInt":
		return intVal(BigLit(intInfo{true, 64}.min())), true
	case "MaxUint64":
		return intVal(BigLit(intInfo{false, 64}.max())), true
	}
	// package-level constants
	if e.pkg != nil {
		if obj := e.pkg.Scope().Lookup(name); obj != nil {
			if c, ok := obj.(*types.Const); ok {
				if s := c.Val().ExactString(); s != "" {
					if v, ok := new(big.Int).SetString(s, 10); ok {
						return Val{T: BigLit(v), Typ: c.Type()}, true
					}
				}
			}
			if gv, ok := obj.(*types.Var); ok && e.v != nil {
				return e.v.globalVal(e.st, gv), true
			}
		}
	}
	return Val{}, false
}

func (e *Env) field(x *Expr) Val {
	base := e.eval(x.Args[0])
	if base.Fields != nil {
		f, ok := base.Fields[x.Name]
		if !ok {
			specErr("no field %s", x.Name)
		}
		return f
	}
	t := base.Typ
	if p, ok := t.Underlying().(*types.Pointer); ok {
		st, ok := p.Elem().Underlying().(*types.Struct)
		if !ok {
			specErr("field of non-struct pointer: %s", x)
		}
		for i := 0; i < st.NumFields(); i++ {
			f := st.Field(i)
			if f.Name() == x.Name {
				if base.Addr != nil {
					// struct local split into fields
					a := e.v.fieldAddrOf(base, p.Elem(), f)
					return e.v.loadAddr(e.st, a)
				}
				fs := sortOf(f.Type())
				if fs == "STRUCT" {
					specErr("nested struct field %s", x)
				}
				h := e.v.heap(e.st, fieldHeap(p.Elem(), f.Name()), ArrSort(fs))
				r := Select(h, base.T)
				e.v.noteEntryLoad(h, r)
				return Val{T: r, Typ: f.Type()}
			}
		}
		// ghost field
		if gt, ok := e.g.ghostFields[structName(p.Elem())+"."+x.Name]; ok {
			h := e.v.heap(e.st, "HG_"+structName(p.Elem())+"_"+x.Name, ArrSort(sortOf(gt)))
			return Val{T: Select(h, base.T), Typ: gt}
		}
		specErr("no field %s in %s", x.Name, p.Elem())
	}
	specErr("field access on %v", t)
	return Val{}
}

func isNilType(t types.Type) bool {
	b, ok := t.(*types.Basic)
	return ok && b.Kind() == types.UntypedNil
}

func (e *Env) binop(x *Expr) Val {
	switch x.Op {
	case "&&":
		return boolVal(And(e.bool(x.Args[0]), e.bool(x.Args[1])))
	case "||":
		return boolVal(Or(e.bool(x.Args[0]), e.bool(x.Args[1])))
	case "==>":
		return boolVal(Implies(e.bool(x.Args[0]), e.bool(x.Args[1])))
	case "<==>":
		return boolVal(Eq(e.bool(x.Args[0]), e.bool(x.Args[1])))
	case "==", "!=":
		a := e.eval(x.Args[0])
		b := e.eval(x.Args[1])
		var r *Term
		if isNilType(b.Typ) && a.T.Sort == SSlice {
			r = Eq(SRef(a.T), IntLit(0))
		} else if isNilType(a.Typ) && b.T.Sort == SSlice {
			r = Eq(SRef(b.T), IntLit(0))
		} else {
			if a.T.Sort != b.T.Sort {
				specErr("comparison of different sorts in %s", x)
			}
			r = Eq(a.T, b.T)
		}
		if x.Op == "!=" {
			r = Not(r)
		}
		return boolVal(r)
	case "<", "<=", ">", ">=":
		return boolVal(Cmp(x.Op, e.int(x.Args[0]), e.int(x.Args[1])))
	case "+":
		return intVal(Add(e.int(x.Args[0]), e.int(x.Args[1])))
	case "-":
		return intVal(Sub(e.int(x.Args[0]), e.int(x.Args[1])))
	case "*":
		return intVal(Mul(e.int(x.Args[0]), e.int(x.Args[1])))
	case "/":
		return intVal(GoDiv(e.int(x.Args[0]), e.int(x.Args[1])))
	case "%":
		return intVal(GoMod(e.int(x.Args[0]), e.int(x.Args[1])))
	case "<<":
		a := e.int(x.Args[0])
		b := e.int(x.Args[1])
		return intVal(Mul(a, pow2Term(b)))
	case ">>":
		a := e.int(x.Args[0])
		b := e.int(x.Args[1])
		return intVal(EDiv(a, pow2Term(b)))
	}
	specErr("operator %s not supported in contracts", x.Op)
	return Val{}
}

func pow2Term(b *Term) *Term {
	if v, ok := b.IntVal(); ok && v.Sign() >= 0 && v.Cmp(big.NewInt(200)) < 0 {
		return BigLit(pow2big(uint(v.Int64())))
	}
	return App("pow2", SInt, b)
}

func (e *Env) call(x *Expr) Val {
	switch x.Name {
	case "len":
		s := e.eval(x.Args[0])
		if s.T.Sort != SSlice {
			specErr("len of non-slice %s", x.Args[0])
		}
		return intVal(SLen(s.T))
	case "cap":
		s := e.eval(x.Args[0])
		return intVal(SCap(s.T))
	case "old":
		if e.old == nil {
			specErr("old() not available here: %s", x)
		}
		o := *e.old
		// keep bound variables of enclosing quantifiers visible
		o.vars = map[string]Val{}
		for k, v := range e.vars {
			if strings.Contains(v.tname(), "?") {
				o.vars[k] = v
			}
		}
		for k, v := range e.old.vars {
			if _, shadow := o.vars[k]; !shadow {
				o.vars[k] = v
			}
		}
		r := o.eval(x.Args[0])
		if r.T != nil && r.T.Sort == SSlice && r.Arr == nil && elemTypeOf(r.Typ) != nil && o.v != nil {
			r.Arr = o.elemArray(r) // snapshot: contents as they were at entry
		}
		return r
	case "pre":
		if e.pre == nil {
			specErr("pre() only available in loop invariants: %s", x)
		}
		o := *e.pre
		o.vars = map[string]Val{}
		for k, v := range e.vars {
			if strings.Contains(v.tname(), "?") {
				o.vars[k] = v
			}
		}
		for k, v := range e.pre.vars {
			if _, shadow := o.vars[k]; !shadow {
				o.vars[k] = v
			}
		}
		r := o.eval(x.Args[0])
		if r.T != nil && r.T.Sort == SSlice && r.Arr == nil && elemTypeOf(r.Typ) != nil && o.v != nil {
			r.Arr = o.elemArray(r) // snapshot: contents as they were before the loop
		}
		return r
	case "iter":
		// value at the start of the current loop iteration (the cut point); only in `use at back`
		if e.iter == nil {
			specErr("iter() only available in 'use at back': %s", x)
		}
		o := *e.iter
		o.vars = map[string]Val{}
		for k, v := range e.vars {
			if strings.Contains(v.tname(), "?") {
				o.vars[k] = v
			}
		}
		for k, v := range e.iter.vars {
			if _, shadow := o.vars[k]; !shadow {
				o.vars[k] = v
			}
		}
		r := o.eval(x.Args[0])
		if r.T != nil && r.T.Sort == SSlice && r.Arr == nil && elemTypeOf(r.Typ) != nil && o.v != nil {
			r.Arr = o.elemArray(r)
		}
		return r
	case "trig":
		// trig(e) is true for every e (preamble axiom); writing it in a contract puts the term
		// trig(e) into the query, which is the trigger of quantifiers over values (those whose
		// bound variable is not an array index, e.g. forall w: s[tri(w)+u] ...)
		a := e.eval(x.Args[0])
		return boolVal(App("trig", SBool, a.T))
	case "fresh":
		s := e.eval(x.Args[0])
		if e.freshBase == nil {
			specErr("fresh() not available here")
		}
		if s.T.Sort == SSlice {
			return boolVal(Ge(SRef(s.T), e.freshBase))
		}
		return boolVal(Ge(s.T, e.freshBase))
	case "unchanged":
		// contents of the slice (as it was at entry) are what they were at entry
		if e.old == nil {
			specErr("unchanged() needs an entry state")
		}
		so := e.old.eval(x.Args[0])
		now := *e.old
		now.st = e.st
		arrNow := now.elemArray(so)
		arrOld := e.old.elemArray(so)
		freshCounter++
		k := Var(fmt.Sprintf("u?%d", freshCounter), SInt)
		body := Eq(Select(arrNow, k), Select(arrOld, k))
		return boolVal(Forall([]*Term{k}, Implies(And(Le(SOff(so.T), k), Lt(k, Add(SOff(so.T), SLen(so.T)))), body), []*Term{Select(arrNow, k)}))
	case "min", "max":
		a := e.int(x.Args[0])
		b := e.int(x.Args[1])
		if x.Name == "min" {
			return intVal(Ite(Le(a, b), a, b))
		}
		return intVal(Ite(Le(a, b), b, a))
	case "abs":
		a := e.int(x.Args[0])
		return intVal(Ite(Ge(a, IntLit(0)), a, Neg(a)))
	case "pow2":
		return intVal(pow2Term(e.int(x.Args[0])))
	case "call":
		// value of a function-typed parameter applied to arguments: the same
		// uninterpreted pure function the executor uses for the real calls (A4)
		fv := e.eval(x.Args[0])
		argT := []*Term{fv.T}
		argS := []string{SInt}
		for _, a := range x.Args[1:] {
			t := e.int(a)
			argT = append(argT, t)
			argS = append(argS, SInt)
		}
		fname := fmt.Sprintf("callfv_%d_%s", len(argS), sanitize(strings.Join(argS, "_")+"_"+SInt))
		if e.v != nil {
			e.g.declareFun(e.v, fname, argS, SInt)
		}
		return intVal(App(fname, SInt, argT...))
	case "unmodified":
		// no tracked memory differs from the entry state (every heap term is the
		// entry heap): used for "the failing path changes nothing"
		if e.v == nil || e.old == nil {
			specErr("unmodified() needs a function context")
		}
		var cs []*Term
		var names []string
		for h := range e.v.heapSorts {
			names = append(names, h)
		}
		sort.Strings(names)
		for _, h := range names {
			srt := e.v.heapSorts[h]
			cs = append(cs, Eq(e.v.heap(e.st, h, srt), e.v.heap(e.v.entry, h, srt)))
		}
		return boolVal(And(cs...))
	case "sameslice":
		a := e.eval(x.Args[0])
		b := e.eval(x.Args[1])
		return boolVal(Eq(a.T, b.T))
	case "ref":
		a := e.eval(x.Args[0])
		return intVal(SRef(a.T))
	case "off":
		a := e.eval(x.Args[0])
		return intVal(SOff(a.T))
	case "disjoint":
		a := e.eval(x.Args[0])
		b := e.eval(x.Args[1])
		// different backing arrays or non-overlapping windows (by capacity)
		return boolVal(Or(Ne(SRef(a.T), SRef(b.T)),
			Le(Add(SOff(a.T), SCap(a.T)), SOff(b.T)),
			Le(Add(SOff(b.T), SCap(b.T)), SOff(a.T))))
	}
	if strings.HasPrefix(x.Name, "as_") && len(x.Args) == 1 {
		// as_T(x): view an interface value (represented by the pointer it holds) as *T
		a := e.eval(x.Args[0])
		pt := e.g.parseType("*"+strings.TrimPrefix(x.Name, "as_"), e.pkg)
		return Val{T: a.T, Typ: pt}
	}
	if gd := e.ghostDecl(x.Name); gd != nil {
		if len(x.Args) != 1 {
			specErr("ghost %s takes one argument", x.Name)
		}
		a := e.eval(x.Args[0])
		if a.T == nil || a.T.Sort != SSlice {
			specErr("ghost %s: carrier must be a slice", x.Name)
		}
		et := e.g.parseType(gd.Elem, e.pkg)
		if gd.Scalar {
			h := e.v.heap(e.st, "HG_"+gd.Name, ArrSort(sortOf(et)))
			return Val{T: Select(h, SRef(a.T)), Typ: et}
		}
		return Val{T: a.T, Typ: types.NewSlice(et), GHeap: "HG_" + gd.Name}
	}
	f := e.specFunc(x.Name)
	if f == nil {
		specErr("unknown function %q in contract", x.Name)
	}
	if len(f.Params) != len(x.Args) {
		specErr("%s: wrong number of arguments", x.Name)
	}
	if e.v != nil {
		e.v.usedSpecs[x.Name] = true
	}
	args := make([]Val, len(x.Args))
	for i, a := range x.Args {
		args[i] = e.eval(a)
	}
	if !f.Rec && !f.Opaque && !e.g.axiomatized(e.v, f) {
		// macro expansion
		if e.depth > 40 {
			specErr("spec function expansion too deep at %s", x.Name)
		}
		n := e.child()
		n.depth = e.depth + 1
		// bound variables of enclosing quantifiers stay visible implicitly only
		// through arguments; parameters shadow everything else.
		for i, p := range f.Params {
			pt := e.g.parseType(p.Type, e.pkg)
			av := args[i]
			av.Typ = retype(av.Typ, pt)
			n.vars[p.Name] = av
		}
		r := n.eval(f.Body)
		r.Typ = e.g.parseType(f.Ret, e.pkg)
		return r
	}
	// SMT function application
	var targs []*Term
	for i, p := range f.Params {
		pt := e.g.parseType(p.Type, e.pkg)
		if sortOf(pt) == SSlice {
			targs = append(targs, e.elemArray(Val{T: args[i].T, Typ: pt, Arr: args[i].Arr}), args[i].T)
		} else {
			if args[i].T.Sort != sortOf(pt) {
				specErr("%s: argument %d has sort %s, want %s", x.Name, i+1, args[i].T.Sort, sortOf(pt))
			}
			targs = append(targs, args[i].T)
		}
	}
	rt := e.g.parseType(f.Ret, e.pkg)
	return Val{T: App("sf_"+f.Name, sortOf(rt), targs...), Typ: rt}
}

func (v Val) tname() string {
	if v.T != nil && v.T.Op == "var" {
		return v.T.Name
	}
	return ""
}

// retype keeps the more informative of the argument's type and the declared
// parameter type (untyped nil / int literals adopt the declared type).
func retype(arg, param types.Type) types.Type {
	if param == nil {
		return arg
	}
	return param
}

// parseType resolves a Go type expression in the scope of pkg.
func (g *Gen) parseType(s string, pkg *types.Package) types.Type {
	s = strings.TrimSpace(s)
	key := s
	if pkg != nil {
		key = pkg.Path() + "::" + s
	}
	if t, ok := g.typeCache[key]; ok {
		return t
	}
	if s == "" {
		specErr("missing type")
	}
	if pkg == nil {
		pkg = g.anyPkg
	}
	tv, err := types.Eval(g.fset, pkg, token.NoPos, s)
	if err != nil {
		specErr("bad type %q: %v", s, err)
	}
	g.typeCache[key] = tv.Type
	return tv.Type
}
