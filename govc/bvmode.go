package main

// Bit-vector mode (`opt mode=bv`): loop-free functions over machine integers
// only (e.g. comb.addHasOverflowed, whose test is a sign-bit trick) are proved
// in QF_BV over the full 64-bit domain — a complete proof, no abstraction of
// the bit operations. Contract expressions are evaluated in 130-bit signed
// arithmetic, where +,-,* of 64-bit operands cannot wrap, so they keep their
// mathematical meaning.

import (
	"fmt"
	"go/constant"
	"go/token"
	"go/types"
	"math/big"
	"strings"

	"golang.org/x/tools/go/ssa"
)

const bvWide = 130

type bvVal struct {
	s      string // SMT term
	bits   uint   // 0 = Bool
	signed bool
}

type bvExec struct {
	g     *Gen
	fn    *ssa.Function
	spec  *FuncSpec
	decls []string
	obls  []*Obligation
	name  string
}

type bvPath struct {
	cond   []string
	locals map[*ssa.Alloc]bvVal
	regs   map[ssa.Value]bvVal
}

func (p *bvPath) clone() *bvPath {
	n := &bvPath{cond: append([]string{}, p.cond...), locals: map[*ssa.Alloc]bvVal{}, regs: map[ssa.Value]bvVal{}}
	for k, v := range p.locals {
		n.locals[k] = v
	}
	for k, v := range p.regs {
		n.regs[k] = v
	}
	return n
}

func bvLit(v *big.Int, bits uint) string {
	m := new(big.Int).Mod(v, pow2big(bits))
	return fmt.Sprintf("(_ bv%s %d)", m.String(), bits)
}

func (x *bvExec) val(p *bvPath, v ssa.Value) bvVal {
	if c, ok := v.(*ssa.Const); ok {
		if isBool(c.Type()) {
			if constant.BoolVal(c.Value) {
				return bvVal{s: "true"}
			}
			return bvVal{s: "false"}
		}
		ii, ok := basicInt(c.Type())
		if !ok {
			unsupported("bv mode: constant of type %s", c.Type())
		}
		bi := new(big.Int)
		if c.Value != nil {
			bi, _ = new(big.Int).SetString(c.Value.ExactString(), 10)
		}
		return bvVal{s: bvLit(bi, ii.bits), bits: ii.bits, signed: ii.signed}
	}
	r, ok := p.regs[v]
	if !ok {
		unsupported("bv mode: value %s", v.Name())
	}
	return r
}

func (x *bvExec) run(b *ssa.BasicBlock, p *bvPath, depth int, onReturn func(p *bvPath, res []bvVal, pos token.Pos)) {
	if depth > 64 {
		unsupported("bv mode: path too long (loop?)")
	}
	for _, in := range b.Instrs {
		switch in := in.(type) {
		case *ssa.DebugRef:
		case *ssa.Alloc:
			et := in.Type().(*types.Pointer).Elem()
			if isBool(et) {
				p.locals[in] = bvVal{s: "false"}
			} else if ii, ok := basicInt(et); ok {
				p.locals[in] = bvVal{s: bvLit(big.NewInt(0), ii.bits), bits: ii.bits, signed: ii.signed}
			} else if strings.Contains(et.String(), "deferStack") {
				// ignore
			} else {
				unsupported("bv mode: local of type %s", et)
			}
		case *ssa.Store:
			a, ok := in.Addr.(*ssa.Alloc)
			if !ok {
				unsupported("bv mode: store through pointer")
			}
			if strings.Contains(a.Type().String(), "deferStack") {
				continue
			}
			p.locals[a] = x.val(p, in.Val)
		case *ssa.UnOp:
			switch in.Op {
			case token.MUL:
				a, ok := in.X.(*ssa.Alloc)
				if !ok {
					unsupported("bv mode: load through pointer")
				}
				p.regs[in] = p.locals[a]
			case token.NOT:
				p.regs[in] = bvVal{s: "(not " + x.val(p, in.X).s + ")"}
			case token.SUB:
				v := x.val(p, in.X)
				p.regs[in] = bvVal{s: "(bvneg " + v.s + ")", bits: v.bits, signed: v.signed}
			case token.XOR:
				v := x.val(p, in.X)
				p.regs[in] = bvVal{s: "(bvnot " + v.s + ")", bits: v.bits, signed: v.signed}
			default:
				unsupported("bv mode: unary %s", in.Op)
			}
		case *ssa.BinOp:
			a, c := x.val(p, in.X), x.val(p, in.Y)
			if a.bits == 0 {
				op := map[token.Token]string{token.EQL: "=", token.NEQ: "distinct", token.AND: "and", token.OR: "or", token.LAND: "and", token.LOR: "or"}[in.Op]
				if op == "" {
					unsupported("bv mode: bool op %s", in.Op)
				}
				p.regs[in] = bvVal{s: "(" + op + " " + a.s + " " + c.s + ")"}
				continue
			}
			cmp := map[token.Token][2]string{token.LSS: {"bvslt", "bvult"}, token.LEQ: {"bvsle", "bvule"}, token.GTR: {"bvsgt", "bvugt"}, token.GEQ: {"bvsge", "bvuge"}}
			if ops, ok := cmp[in.Op]; ok {
				op := ops[1]
				if a.signed {
					op = ops[0]
				}
				p.regs[in] = bvVal{s: "(" + op + " " + a.s + " " + c.s + ")"}
				continue
			}
			switch in.Op {
			case token.EQL:
				p.regs[in] = bvVal{s: "(= " + a.s + " " + c.s + ")"}
				continue
			case token.NEQ:
				p.regs[in] = bvVal{s: "(distinct " + a.s + " " + c.s + ")"}
				continue
			}
			ar := map[token.Token]string{token.ADD: "bvadd", token.SUB: "bvsub", token.MUL: "bvmul", token.AND: "bvand", token.OR: "bvor", token.XOR: "bvxor"}
			if op, ok := ar[in.Op]; ok {
				p.regs[in] = bvVal{s: "(" + op + " " + a.s + " " + c.s + ")", bits: a.bits, signed: a.signed}
				continue
			}
			if in.Op == token.AND_NOT {
				p.regs[in] = bvVal{s: "(bvand " + a.s + " (bvnot " + c.s + "))", bits: a.bits, signed: a.signed}
				continue
			}
			unsupported("bv mode: binary %s", in.Op)
		case *ssa.Call:
			if b, ok := in.Call.Value.(*ssa.Builtin); ok && strings.HasPrefix(b.Name(), "ssa:") {
				continue
			}
			unsupported("bv mode: call")
		case *ssa.RunDefers:
		case *ssa.If:
			c := x.val(p, in.Cond)
			pt := p.clone()
			pt.cond = append(pt.cond, c.s)
			x.run(b.Succs[0], pt, depth+1, onReturn)
			pf := p.clone()
			pf.cond = append(pf.cond, "(not "+c.s+")")
			x.run(b.Succs[1], pf, depth+1, onReturn)
			return
		case *ssa.Jump:
			x.run(b.Succs[0], p, depth+1, onReturn)
			return
		case *ssa.Return:
			var res []bvVal
			for _, r := range in.Results {
				res = append(res, x.val(p, r))
			}
			onReturn(p, res, in.Pos())
			return
		case *ssa.Panic:
			unsupported("bv mode: panic")
		default:
			unsupported("bv mode: %T", in)
		}
	}
}

func widen(v bvVal) string {
	if v.bits == 0 {
		return v.s
	}
	if v.signed {
		return fmt.Sprintf("((_ sign_extend %d) %s)", bvWide-v.bits, v.s)
	}
	return fmt.Sprintf("((_ zero_extend %d) %s)", bvWide-v.bits, v.s)
}

// contract expression in wide signed bit-vector arithmetic
func (x *bvExec) expr(e *Expr, env map[string]bvVal) (string, bool) {
	switch e.Kind {
	case "int":
		v, _ := new(big.Int).SetString(e.Name, 10)
		return bvLit(v, bvWide), false
	case "bool":
		return e.Name, true
	case "ident":
		switch e.Name {
		case "MaxInt":
			return bvLit(intInfo{true, 64}.max(), bvWide), false
		case "MinInt":
			return bvLit(intInfo{true, 64}.min(), bvWide), false
		}
		v, ok := env[e.Name]
		if !ok {
			specErr("bv mode: unknown identifier %s", e.Name)
		}
		return widen(v), v.bits == 0
	case "unop":
		a, _ := x.expr(e.Args[0], env)
		if e.Op == "!" {
			return "(not " + a + ")", true
		}
		return "(bvneg " + a + ")", false
	case "binop":
		a, _ := x.expr(e.Args[0], env)
		b, _ := x.expr(e.Args[1], env)
		switch e.Op {
		case "&&":
			return "(and " + a + " " + b + ")", true
		case "||":
			return "(or " + a + " " + b + ")", true
		case "==>":
			return "(=> " + a + " " + b + ")", true
		case "<==>", "==":
			return "(= " + a + " " + b + ")", true
		case "!=":
			return "(distinct " + a + " " + b + ")", true
		case "<":
			return "(bvslt " + a + " " + b + ")", true
		case "<=":
			return "(bvsle " + a + " " + b + ")", true
		case ">":
			return "(bvsgt " + a + " " + b + ")", true
		case ">=":
			return "(bvsge " + a + " " + b + ")", true
		case "+":
			return "(bvadd " + a + " " + b + ")", false
		case "-":
			return "(bvsub " + a + " " + b + ")", false
		case "*":
			return "(bvmul " + a + " " + b + ")", false
		}
	}
	specErr("bv mode: cannot translate %s", e)
	return "", false
}

// GenFuncBV produces one obligation per (return path, ensures clause).
func (g *Gen) GenFuncBV(fn *ssa.Function, spec *FuncSpec) (vc *FnVC, err error) {
	v := &FnVC{g: g, fn: fn, spec: spec, name: fn.Pkg.Pkg.Name() + "." + funcKey(fn), pkg: fn.Pkg.Pkg}
	defer func() {
		if r := recover(); r != nil {
			switch e := r.(type) {
			case Unsupported:
				err = e
			case SpecError:
				err = e
			default:
				panic(r)
			}
			vc = v
		}
	}()
	x := &bvExec{g: g, fn: fn, spec: spec, name: v.name}
	p0 := &bvPath{locals: map[*ssa.Alloc]bvVal{}, regs: map[ssa.Value]bvVal{}}
	env := map[string]bvVal{}
	var decls []string
	for _, p := range fn.Params {
		ii, ok := basicInt(p.Type())
		if !ok {
			unsupported("bv mode: parameter %s of type %s", p.Name(), p.Type())
		}
		n := "p_" + sanitize(p.Name())
		decls = append(decls, fmt.Sprintf("(declare-fun %s () (_ BitVec %d))", n, ii.bits))
		val := bvVal{s: n, bits: ii.bits, signed: ii.signed}
		p0.regs[p] = val
		env[p.Name()] = val
	}
	var pre []string
	for _, r := range spec.Requires {
		s, _ := x.expr(r.E, env)
		pre = append(pre, s)
	}
	resNames := []string{}
	res := fn.Signature.Results()
	for i := 0; i < res.Len(); i++ {
		n := res.At(i).Name()
		if n == "" || n == "_" {
			n = fmt.Sprintf("result%d", i)
			if res.Len() == 1 {
				n = "result"
			}
		}
		resNames = append(resNames, n)
	}
	nret := 0
	x.run(fn.Blocks[0], p0, 0, func(p *bvPath, rs []bvVal, pos token.Pos) {
		nret++
		renv := map[string]bvVal{}
		for k, val := range env {
			renv[k] = val
		}
		for i, r := range rs {
			renv[resNames[i]] = r
		}
		for i, c := range spec.Ensures {
			goal, _ := x.expr(c.E, renv)
			var q strings.Builder
			q.WriteString("(set-logic QF_BV)\n")
			for _, d := range decls {
				q.WriteString(d + "\n")
			}
			for _, s := range pre {
				q.WriteString("(assert " + s + ")\n")
			}
			for _, s := range p.cond {
				q.WriteString("(assert " + s + ")\n")
			}
			q.WriteString("(assert (not " + goal + "))\n(check-sat)\n")
			o := &Obligation{Fn: v.name, Name: fmt.Sprintf("%s/ensures#%d@path%d", v.name, i+1, nret), Kind: "ensures", Guard: True, Goal: False,
				Pos: v.posOfFn(pos), Text: c.Text + "  [QF_BV, full 64-bit domain]", vc: v, RawQuery: q.String()}
			v.obls = append(v.obls, o)
		}
	})
	if nret == 0 {
		unsupported("bv mode: no return path")
	}
	return v, nil
}

func (v *FnVC) posOfFn(p token.Pos) string {
	if !p.IsValid() {
		p = v.fn.Pos()
	}
	pp := v.fn.Prog.Fset.Position(p)
	return fmt.Sprintf("%s:%d", shortFile(pp.Filename), pp.Line)
}
