package main

// Solver portfolio: z3-new (5.1), z3 (4.8.12), cvc5, raced per obligation, with
// a content-addressed cache.

import (
	"bytes"
	"context"
	"crypto/sha256"
	"encoding/hex"
	"encoding/json"
	"fmt"
	"os"
	"os/exec"
	"path/filepath"
	"strings"
	"sync"
	"syscall"
	"time"
)

type solverDef struct {
	name string
	args func(file string, timeoutS int, seed int) []string
}

var solvers = []solverDef{
	{"z3-new", func(f string, t, seed int) []string {
		return []string{"z3-new", fmt.Sprintf("-T:%d", t), fmt.Sprintf("smt.random_seed=%d", seed), f}
	}},
	{"cvc5", func(f string, t, seed int) []string {
		return []string{"cvc5", fmt.Sprintf("--tlimit=%d", t*1000), fmt.Sprintf("--seed=%d", seed), "--full-saturate-quant", f}
	}},
	{"z3", func(f string, t, seed int) []string {
		return []string{"z3", fmt.Sprintf("-T:%d", t), fmt.Sprintf("smt.random_seed=%d", seed), f}
	}},
}

type cacheEntry struct {
	Result  string  `json:"result"`
	Solver  string  `json:"solver"`
	Seconds float64 `json:"seconds"`
}

// hint: how an obligation (identified by the SHA-256 of its full query text) was discharged
// before. It is not a cached answer: the recorded solver is run again, with the recorded seed
// and a timeout scaled from the recorded time; z3 and cvc5 are deterministic for a fixed input
// and seed, so an unchanged obligation is re-proved reproducibly whatever VERIF_SEED is.
type hint struct {
	Solver  string  `json:"solver"`
	Seed    int     `json:"seed"`
	Seconds float64 `json:"seconds"`
	Name    string  `json:"name,omitempty"`
}

type Solver struct {
	hints    map[string]hint
	newHints map[string]hint
	curName  map[string]string
	byName   map[string]hint // same obligation name on the unchanged tree (fallback when the query text changed)
	cacheDir string
	workDir  string
	timeout  int
	seed     int
	noCache  bool
	smokeOnly bool
	noRetry  bool
	mu       sync.Mutex
	Stats    map[string]int
	SolverS  float64
}

func NewSolver(cacheDir, workDir string, timeout, seed int) *Solver {
	os.MkdirAll(cacheDir, 0o755)
	os.MkdirAll(workDir, 0o755)
	return &Solver{cacheDir: cacheDir, workDir: workDir, timeout: timeout, seed: seed, Stats: map[string]int{}, hints: map[string]hint{}, newHints: map[string]hint{}, curName: map[string]string{}, byName: map[string]hint{}}
}

var procSlots = make(chan struct{}, 16)

// globalSlot takes one of 16 advisory file locks shared by all govc processes of the machine.
func globalSlot(ctx context.Context) func() {
	dir := filepath.Join(os.TempDir(), "govc-slots")
	os.MkdirAll(dir, 0o777)
	for {
		for i := 0; i < 16; i++ {
			f, err := os.OpenFile(filepath.Join(dir, fmt.Sprintf("slot-%02d", i)), os.O_CREATE|os.O_RDWR, 0o666)
			if err != nil {
				// no usable lock directory: fall back to the per-process limit only
				return func() {}
			}
			if syscall.Flock(int(f.Fd()), syscall.LOCK_EX|syscall.LOCK_NB) == nil {
				return func() {
					syscall.Flock(int(f.Fd()), syscall.LOCK_UN)
					f.Close()
				}
			}
			f.Close()
		}
		select {
		case <-ctx.Done():
			return nil
		case <-time.After(40 * time.Millisecond):
		}
	}
}

func runOne(ctx context.Context, sd solverDef, file string, timeout, seed int) (string, string) {
	select {
	case procSlots <- struct{}{}:
		defer func() { <-procSlots }()
	case <-ctx.Done():
		return "cancelled", ""
	}
	// machine-wide slot: several checks may run at the same time; together they never run
	// more solver processes than there are cores, and a solver's time limit starts only
	// once it has a slot
	release := globalSlot(ctx)
	if release == nil {
		return "cancelled", ""
	}
	defer release()
	args := sd.args(file, timeout, seed)
	cctx, cancel := context.WithTimeout(ctx, time.Duration(timeout+2)*time.Second)
	defer cancel()
	cmd := exec.CommandContext(cctx, args[0], args[1:]...)
	var out bytes.Buffer
	cmd.Stdout = &out
	cmd.Stderr = &out
	cmd.Run()
	s := strings.TrimSpace(out.String())
	first := s
	if i := strings.Index(s, "\n"); i >= 0 {
		first = strings.TrimSpace(s[:i])
	}
	switch first {
	case "unsat", "sat", "unknown":
		return first, s
	}
	if strings.Contains(s, "timeout") || cctx.Err() != nil {
		return "timeout", s
	}
	return "error", s
}

// LoadHints reads the hints file (missing file: no hints).
func (sv *Solver) LoadHints(file string) {
	data, err := os.ReadFile(file)
	if err != nil {
		return
	}
	json.Unmarshal(data, &sv.hints)
	sv.byName = map[string]hint{}
	for _, h := range sv.hints {
		if h.Name != "" {
			if old, ok := sv.byName[h.Name]; !ok || h.Seconds > old.Seconds {
				sv.byName[h.Name] = h
			}
		}
	}
}

// SaveHints merges the hints recorded in this run into the file.
func (sv *Solver) SaveHints(file string) {
	all := map[string]hint{}
	if data, err := os.ReadFile(file); err == nil {
		json.Unmarshal(data, &all)
	}
	sv.mu.Lock()
	for k, h := range sv.newHints {
		all[k] = h
	}
	sv.mu.Unlock()
	data, _ := json.Marshal(all)
	os.WriteFile(file, data, 0o644)
}

func (sv *Solver) note(key string, sd solverDef, seed int, secs float64) {
	sv.mu.Lock()
	sv.newHints[key[:24]] = hint{sd.name, seed, secs, sv.curName[key[:24]]}
	sv.mu.Unlock()
}

// Solve decides one query. unsat = obligation discharged.
func (sv *Solver) Solve(name, query string) (result, solver string, secs float64, detail string) {
	h := sha256.Sum256([]byte(query))
	key := hex.EncodeToString(h[:])
	cfile := filepath.Join(sv.cacheDir, key[:2], key+".json")
	if !sv.noCache {
		if data, err := os.ReadFile(cfile); err == nil {
			var ce cacheEntry
			if json.Unmarshal(data, &ce) == nil && ce.Result == "unsat" {
				return ce.Result, ce.Solver + "(cached)", ce.Seconds, ""
			}
		}
	}
	file := filepath.Join(sv.workDir, key[:16]+".smt2")
	os.WriteFile(file, []byte(query), 0o644)
	defer os.Remove(file)
	start := time.Now()
	sv.mu.Lock()
	sv.curName[key[:24]] = name
	sv.mu.Unlock()
	// stage 0: the way this very query was discharged before, with a generous limit;
	// if the query text is new (the function or its contract changed), the way the
	// obligation of the same name was discharged on the unchanged tree is tried first
	h0, ok0 := sv.hints[key[:24]]
	if !ok0 {
		h0, ok0 = sv.byName[name]
	}
	if h, ok := h0, ok0; ok && !sv.smokeOnly {
		for _, sd := range solvers {
			if sd.name != h.Solver {
				continue
			}
			t := int(h.Seconds*6) + 15
			if t < sv.timeout {
				t = sv.timeout
			}
			r, out := runOne(context.Background(), sd, file, t, h.Seed)
			if r == "unsat" {
				secs = time.Since(start).Seconds()
				sv.store(cfile, r, sd.name, secs)
				sv.note(key, sd, h.Seed, secs)
				return r, sd.name + "(hint)", secs, ""
			}
			if r == "sat" {
				return "sat", sd.name, time.Since(start).Seconds(), out
			}
		}
	}
	// stage 1: z3-new alone, short
	short := 3
	if sv.timeout < short {
		short = sv.timeout
	}
	r, out := runOne(context.Background(), solvers[0], file, short, sv.seed)
	if r == "unsat" {
		secs = time.Since(start).Seconds()
		sv.store(cfile, r, solvers[0].name, secs)
		sv.note(key, solvers[0], sv.seed, secs)
		return r, solvers[0].name, secs, ""
	}
	firstSat := ""
	firstSatOut := ""
	if r == "sat" {
		return "sat", solvers[0].name, time.Since(start).Seconds(), out
	}
	if sv.smokeOnly {
		return r, solvers[0].name, time.Since(start).Seconds(), ""
	}
	// stage 2: race all
	ctx, cancel := context.WithCancel(context.Background())
	defer cancel()
	type res struct {
		r, out, solver string
		sd             solverDef
		seed           int
		t0             time.Time
	}
	ch := make(chan res, len(solvers))
	for _, sd := range solvers {
		sd := sd
		go func() {
			t0 := time.Now()
			r, out := runOne(ctx, sd, file, sv.timeout, sv.seed)
			ch <- res{r, out, sd.name, sd, sv.seed, t0}
		}()
	}
	var details []string
	final := "unknown"
	for range solvers {
		x := <-ch
		if x.r == "unsat" {
			cancel()
			secs = time.Since(start).Seconds()
			sv.store(cfile, "unsat", x.solver, secs)
			sv.note(key, x.sd, x.seed, time.Since(x.t0).Seconds())
			return "unsat", x.solver, secs, ""
		}
		if x.r == "sat" && firstSat == "" {
			firstSat, firstSatOut = x.solver, x.out
		}
		if x.r == "timeout" && final == "unknown" {
			final = "timeout"
		}
		d := x.out
		if len(d) > 200 {
			d = d[:200]
		}
		details = append(details, x.solver+": "+x.r+" "+strings.ReplaceAll(d, "\n", " "))
	}
	if firstSat != "" {
		return "sat", firstSat, time.Since(start).Seconds(), firstSatOut
	}
	// stage 3: quantifier instantiation is sensitive to the random seed; before
	// reporting an obligation as undischarged, retry with other seeds and a
	// longer limit (only failing obligations pay for this).
	if !sv.noRetry {
		ctx3, cancel3 := context.WithCancel(context.Background())
		defer cancel3()
		type job struct {
			sd   solverDef
			seed int
		}
		jobs := []job{{solvers[0], sv.seed + 11}, {solvers[0], sv.seed + 23}, {solvers[0], sv.seed + 37}, {solvers[0], sv.seed + 53}, {solvers[0], sv.seed + 71}, {solvers[1], sv.seed + 5}, {solvers[2], sv.seed + 7}, {solvers[2], sv.seed + 29}}
		ch3 := make(chan res, len(jobs))
		for _, j := range jobs {
			j := j
			go func() {
				t0 := time.Now()
				r, out := runOne(ctx3, j.sd, file, sv.timeout*5, j.seed)
				ch3 <- res{r, out, fmt.Sprintf("%s(seed %d)", j.sd.name, j.seed), j.sd, j.seed, t0}
			}()
		}
		for range jobs {
			x := <-ch3
			if x.r == "unsat" {
				cancel3()
				secs = time.Since(start).Seconds()
				sv.store(cfile, "unsat", x.solver, secs)
				sv.note(key, x.sd, x.seed, time.Since(x.t0).Seconds())
				return "unsat", x.solver, secs, ""
			}
			if x.r == "sat" {
				cancel3()
				return "sat", x.solver, time.Since(start).Seconds(), x.out
			}
		}
	}
	secs = time.Since(start).Seconds()
	return final, "", secs, strings.Join(details, " | ")
}

func (sv *Solver) store(cfile, r, solver string, secs float64) {
	os.MkdirAll(filepath.Dir(cfile), 0o755)
	data, _ := json.Marshal(cacheEntry{r, solver, secs})
	os.WriteFile(cfile, data, 0o644)
}

// GetModel re-runs a sat query with (get-value) for the given constants.
func (sv *Solver) GetModel(query string, consts []string, solver string) map[string]string {
	if len(consts) == 0 {
		return nil
	}
	q := "(set-option :produce-models true)\n" + query + "(get-value (" + strings.Join(consts, " ") + "))\n"
	h := sha256.Sum256([]byte(q))
	file := filepath.Join(sv.workDir, hex.EncodeToString(h[:8])+"_m.smt2")
	os.WriteFile(file, []byte(q), 0o644)
	defer os.Remove(file)
	var sd solverDef
	for _, s := range solvers {
		if s.name == solver {
			sd = s
		}
	}
	if sd.name == "" {
		sd = solvers[0]
	}
	args := sd.args(file, sv.timeout, sv.seed)
	if sd.name == "cvc5" {
		args = append(args[:1], append([]string{"--produce-models"}, args[1:]...)...)
	}
	ctx, cancel := context.WithTimeout(context.Background(), time.Duration(sv.timeout+2)*time.Second)
	defer cancel()
	outb, _ := exec.CommandContext(ctx, args[0], args[1:]...).CombinedOutput()
	out := string(outb)
	if !strings.HasPrefix(strings.TrimSpace(out), "sat") {
		return nil
	}
	m := map[string]string{}
	for _, c := range consts {
		// find "(c value)"
		idx := strings.Index(out, "("+c+" ")
		if idx < 0 {
			continue
		}
		rest := out[idx+len(c)+2:]
		depth := 0
		end := -1
		for i, ch := range rest {
			if ch == '(' {
				depth++
			} else if ch == ')' {
				if depth == 0 {
					end = i
					break
				}
				depth--
			}
		}
		if end > 0 {
			m[c] = strings.TrimSpace(rest[:end])
		}
	}
	return m
}

// SolveAll runs all pending obligations with a worker pool.
func (sv *Solver) SolveAll(obls []*Obligation, workers int, progress func(o *Obligation)) {
	var wg sync.WaitGroup
	ch := make(chan *Obligation)
	for i := 0; i < workers; i++ {
		wg.Add(1)
		go func() {
			defer wg.Done()
			for o := range ch {
				if o.Result == "" {
					solveSplit := func() bool {
						// all cases in parallel; every case must be unsat
						type cr struct {
							r string
							t float64
						}
						ch := make(chan cr, len(o.Split))
						for _, c := range o.Split {
							q := o.QueryCase(c)
							go func() {
								r2, _, t2, _ := sv.Solve(o.Name, q)
								ch <- cr{r2, t2}
							}()
						}
						all := true
						for range o.Split {
							x := <-ch
							o.Seconds += x.t
							if os.Getenv("GOVC_TRACE") != "" {
								fmt.Fprintf(os.Stderr, "trace: %s split case -> %s %.1fs\n", o.Name, x.r, x.t)
							}
							if x.r != "unsat" {
								all = false
							}
						}
						return all
					}
					if o.SplitFirst && len(o.Split) > 1 && !sv.smokeOnly {
						if solveSplit() {
							o.Result, o.Solver = "unsat", "split"
						}
					}
					if o.Result == "" {
						q := o.Query()
						r, s, t, d := sv.Solve(o.Name, q)
						o.Result, o.Solver, o.Seconds, o.Model = r, s, o.Seconds+t, d
						if os.Getenv("GOVC_TRACE") != "" {
							fmt.Fprintf(os.Stderr, "trace: %s whole -> %s (%s) %.1fs\n", o.Name, r, s, t)
						}
						if r != "unsat" && r != "sat" && len(o.Split) > 1 && !sv.smokeOnly && !o.SplitFirst {
							if solveSplit() {
								o.Result, o.Solver = "unsat", "split"
							}
						}
					}
				}
				sv.mu.Lock()
				sv.Stats[o.Result]++
				sv.SolverS += o.Seconds
				if progress != nil {
					progress(o)
				}
				sv.mu.Unlock()
			}
		}()
	}
	for _, o := range obls {
		ch <- o
	}
	close(ch)
	wg.Wait()
}
