package main

// CFG analysis: natural loops (reducible) and user cut points (irreducible),
// loop ordinals, acyclic execution order.

import (
	"fmt"
	"go/token"
	"sort"

	"golang.org/x/tools/go/ssa"
)

type Loop struct {
	Head    *ssa.BasicBlock
	Body    map[*ssa.BasicBlock]bool // includes Head
	Back    []*ssa.BasicBlock        // sources of back edges
	Ordinal int
	Label   string
	Parent  *Loop
	Spec    *LoopSpec
	MinPos  token.Pos
	Line    int
}

type CFG struct {
	fn        *ssa.Function
	Reach     map[*ssa.BasicBlock]bool
	Loops     []*Loop // sorted by ordinal
	LoopOf    map[*ssa.BasicBlock]*Loop
	BackEdge  map[[2]int]bool
	Order     []*ssa.BasicBlock
	Irreducible bool
}

func blockMinPos(b *ssa.BasicBlock) token.Pos {
	min := token.NoPos
	for _, in := range b.Instrs {
		if _, ok := in.(*ssa.DebugRef); ok {
			continue
		}
		p := in.Pos()
		if p.IsValid() && (min == token.NoPos || p < min) {
			min = p
		}
	}
	return min
}

// AnalyseCFG computes loops. cutLabels are block comments (goto labels) that
// the contract names as cut points; they are used for irreducible cycles.
func AnalyseCFG(fn *ssa.Function, cutLabels []string) (*CFG, error) {
	c := &CFG{fn: fn, Reach: map[*ssa.BasicBlock]bool{}, LoopOf: map[*ssa.BasicBlock]*Loop{}, BackEdge: map[[2]int]bool{}}
	if len(fn.Blocks) == 0 {
		return nil, fmt.Errorf("no body")
	}
	var dfs func(b *ssa.BasicBlock)
	dfs = func(b *ssa.BasicBlock) {
		if c.Reach[b] {
			return
		}
		c.Reach[b] = true
		for _, s := range b.Succs {
			dfs(s)
		}
	}
	dfs(fn.Blocks[0])

	isCutLabel := map[string]bool{}
	for _, l := range cutLabels {
		isCutLabel[l] = true
	}
	// cut nodes: dominator back-edge targets, plus labelled blocks.
	heads := map[*ssa.BasicBlock]*Loop{}
	for _, b := range fn.Blocks {
		if !c.Reach[b] {
			continue
		}
		for _, s := range b.Succs {
			if s.Dominates(b) {
				l := heads[s]
				if l == nil {
					l = &Loop{Head: s, Body: map[*ssa.BasicBlock]bool{s: true}}
					heads[s] = l
				}
				l.Back = append(l.Back, b)
				c.BackEdge[[2]int{b.Index, s.Index}] = true
			}
		}
	}
	// natural loop bodies
	for _, l := range heads {
		var stack []*ssa.BasicBlock
		for _, u := range l.Back {
			if !l.Body[u] {
				l.Body[u] = true
				stack = append(stack, u)
			}
		}
		for len(stack) > 0 {
			u := stack[len(stack)-1]
			stack = stack[:len(stack)-1]
			for _, p := range u.Preds {
				if c.Reach[p] && !l.Body[p] {
					l.Body[p] = true
					stack = append(stack, p)
				}
			}
		}
	}
	// check acyclicity without back edges; if cyclic, use labelled cut points.
	if cyc := c.findCycle(); cyc != nil {
		c.Irreducible = true
		// every labelled cut block in a remaining cycle becomes a cut node whose
		// body is its strongly connected component in the remaining graph.
		for iter := 0; iter < 20; iter++ {
			cyc = c.findCycle()
			if cyc == nil {
				break
			}
			var cut *ssa.BasicBlock
			for _, b := range cyc {
				if isCutLabel[b.Comment] && heads[b] == nil {
					cut = b
					break
				}
			}
			if cut == nil {
				return nil, fmt.Errorf("irreducible control flow: cycle through blocks %v has no cut point (name a label with 'loop <label>')", blockNames(cyc))
			}
			l := &Loop{Head: cut, Body: c.sccOf(cut)}
			heads[cut] = l
			for _, p := range cut.Preds {
				if l.Body[p] {
					l.Back = append(l.Back, p)
					c.BackEdge[[2]int{p.Index, cut.Index}] = true
				}
			}
		}
		if cyc := c.findCycle(); cyc != nil {
			return nil, fmt.Errorf("irreducible control flow: uncut cycle %v", blockNames(cyc))
		}
	}
	for _, l := range heads {
		l.MinPos = token.NoPos
		for b := range l.Body {
			p := blockMinPos(b)
			if p.IsValid() && (l.MinPos == token.NoPos || p < l.MinPos) {
				l.MinPos = p
			}
		}
		l.Label = l.Head.Comment
		if l.MinPos.IsValid() {
			l.Line = fn.Prog.Fset.Position(l.MinPos).Line
		}
		c.Loops = append(c.Loops, l)
	}
	sort.Slice(c.Loops, func(i, j int) bool {
		a, b := c.Loops[i], c.Loops[j]
		if a.MinPos != b.MinPos {
			return a.MinPos < b.MinPos
		}
		if len(a.Body) != len(b.Body) {
			return len(a.Body) > len(b.Body)
		}
		return a.Head.Index < b.Head.Index
	})
	for i, l := range c.Loops {
		l.Ordinal = i + 1
		c.LoopOf[l.Head] = l
	}
	// parents: smallest strictly containing loop
	for _, l := range c.Loops {
		for _, m := range c.Loops {
			if m == l || !m.Body[l.Head] || len(m.Body) <= len(l.Body) {
				continue
			}
			if m.Body[l.Head] && (l.Parent == nil || len(m.Body) < len(l.Parent.Body)) {
				if m.Head != l.Head {
					l.Parent = m
				}
			}
		}
	}
	// topological order without back edges
	visited := map[*ssa.BasicBlock]bool{}
	var post []*ssa.BasicBlock
	var visit func(b *ssa.BasicBlock)
	visit = func(b *ssa.BasicBlock) {
		visited[b] = true
		for _, s := range b.Succs {
			if c.BackEdge[[2]int{b.Index, s.Index}] || visited[s] {
				continue
			}
			visit(s)
		}
		post = append(post, b)
	}
	visit(fn.Blocks[0])
	for i := len(post) - 1; i >= 0; i-- {
		c.Order = append(c.Order, post[i])
	}
	return c, nil
}

func blockNames(bs []*ssa.BasicBlock) []string {
	var out []string
	for _, b := range bs {
		out = append(out, fmt.Sprintf("%d(%s)", b.Index, b.Comment))
	}
	return out
}

// findCycle returns some cycle in the graph without the recorded back edges.
func (c *CFG) findCycle() []*ssa.BasicBlock {
	color := map[*ssa.BasicBlock]int{}
	var stack []*ssa.BasicBlock
	var found []*ssa.BasicBlock
	var visit func(b *ssa.BasicBlock) bool
	visit = func(b *ssa.BasicBlock) bool {
		color[b] = 1
		stack = append(stack, b)
		for _, s := range b.Succs {
			if c.BackEdge[[2]int{b.Index, s.Index}] {
				continue
			}
			if color[s] == 1 {
				for i, x := range stack {
					if x == s {
						found = append([]*ssa.BasicBlock{}, stack[i:]...)
						return true
					}
				}
			}
			if color[s] == 0 && visit(s) {
				return true
			}
		}
		stack = stack[:len(stack)-1]
		color[b] = 2
		return false
	}
	if visit(c.fn.Blocks[0]) {
		return found
	}
	return nil
}

// sccOf returns the blocks on cycles through b in the graph without back edges.
func (c *CFG) sccOf(b *ssa.BasicBlock) map[*ssa.BasicBlock]bool {
	fwd := map[*ssa.BasicBlock]bool{}
	var f func(x *ssa.BasicBlock)
	f = func(x *ssa.BasicBlock) {
		if fwd[x] {
			return
		}
		fwd[x] = true
		for _, s := range x.Succs {
			if !c.BackEdge[[2]int{x.Index, s.Index}] {
				f(s)
			}
		}
	}
	f(b)
	bwd := map[*ssa.BasicBlock]bool{}
	var g func(x *ssa.BasicBlock)
	g = func(x *ssa.BasicBlock) {
		if bwd[x] {
			return
		}
		bwd[x] = true
		for _, p := range x.Preds {
			if c.Reach[p] && !c.BackEdge[[2]int{p.Index, x.Index}] {
				g(p)
			}
		}
	}
	g(b)
	out := map[*ssa.BasicBlock]bool{}
	for x := range fwd {
		if bwd[x] {
			out[x] = true
		}
	}
	out[b] = true
	return out
}
