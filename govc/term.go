package main

// Term layer: a small SMT-LIB term AST with smart constructors that keep
// integer terms in a canonical linear normal form (needed for the
// absolute-index quantifier discipline, DESIGN §2.4).

import (
	"fmt"
	"math/big"
	"sort"
	"strings"
)

const (
	SInt   = "Int"
	SBool  = "Bool"
	SSlice = "Slice"
)

func ArrSort(elem string) string  { return "(Array Int " + elem + ")" }
func HeapSort(elem string) string { return "(Array Int (Array Int " + elem + "))" }

type Term struct {
	Op   string // "var", "lit", or an SMT operator / function name
	Name string // for var / lit
	Args []*Term
	Sort string
	// quantifiers
	Bound []*Term   // bound variables for forall/exists
	Pats  [][]*Term // patterns
	str   string
}

func Var(name, sort string) *Term { return &Term{Op: "var", Name: name, Sort: sort} }

func IntLit(v int64) *Term { return BigLit(big.NewInt(v)) }

func BigLit(v *big.Int) *Term {
	return &Term{Op: "lit", Name: v.String(), Sort: SInt}
}

var True = &Term{Op: "lit", Name: "true", Sort: SBool}
var False = &Term{Op: "lit", Name: "false", Sort: SBool}

func BoolLit(b bool) *Term {
	if b {
		return True
	}
	return False
}

func (t *Term) IsLit() bool { return t.Op == "lit" }
func (t *Term) IsTrue() bool {
	return t.Op == "lit" && t.Name == "true"
}
func (t *Term) IsFalse() bool {
	return t.Op == "lit" && t.Name == "false"
}

func (t *Term) IntVal() (*big.Int, bool) {
	if t.Op == "lit" && t.Sort == SInt {
		v, ok := new(big.Int).SetString(t.Name, 10)
		return v, ok
	}
	return nil, false
}

func smtInt(v *big.Int) string {
	if v.Sign() < 0 {
		return "(- " + new(big.Int).Neg(v).String() + ")"
	}
	return v.String()
}

func (t *Term) String() string {
	if t.str != "" {
		return t.str
	}
	var s string
	switch t.Op {
	case "var":
		s = t.Name
	case "lit":
		if t.Sort == SInt {
			v, _ := t.IntVal()
			s = smtInt(v)
		} else {
			s = t.Name
		}
	case "forall", "exists":
		var b strings.Builder
		b.WriteString("(" + t.Op + " (")
		for i, v := range t.Bound {
			if i > 0 {
				b.WriteString(" ")
			}
			b.WriteString("(" + v.Name + " " + v.Sort + ")")
		}
		b.WriteString(") ")
		if len(t.Pats) > 0 {
			b.WriteString("(! ")
		}
		b.WriteString(t.Args[0].String())
		for _, p := range t.Pats {
			b.WriteString(" :pattern (")
			for i, x := range p {
				if i > 0 {
					b.WriteString(" ")
				}
				b.WriteString(x.String())
			}
			b.WriteString(")")
		}
		if len(t.Pats) > 0 {
			b.WriteString(")")
		}
		b.WriteString(")")
		s = b.String()
	default:
		if len(t.Args) == 0 {
			s = t.Op
		} else {
			var b strings.Builder
			b.WriteString("(" + t.Op)
			for _, a := range t.Args {
				b.WriteString(" ")
				b.WriteString(a.String())
			}
			b.WriteString(")")
			s = b.String()
		}
	}
	t.str = s
	return s
}

func App(op, sort string, args ...*Term) *Term {
	return &Term{Op: op, Sort: sort, Args: args}
}

// ---------- linear normal form ----------

type lin struct {
	c     *big.Int
	atoms map[string]*big.Int
	terms map[string]*Term
}

func newLin() *lin {
	return &lin{c: new(big.Int), atoms: map[string]*big.Int{}, terms: map[string]*Term{}}
}

func (l *lin) addAtom(t *Term, k *big.Int) {
	s := t.String()
	if old, ok := l.atoms[s]; ok {
		old.Add(old, k)
		if old.Sign() == 0 {
			delete(l.atoms, s)
			delete(l.terms, s)
		}
		return
	}
	if k.Sign() == 0 {
		return
	}
	l.atoms[s] = new(big.Int).Set(k)
	l.terms[s] = t
}

func (l *lin) addLin(o *lin, k *big.Int) {
	l.c.Add(l.c, new(big.Int).Mul(o.c, k))
	for s, c := range o.atoms {
		l.addAtom(o.terms[s], new(big.Int).Mul(c, k))
	}
}

func linOf(t *Term) *lin {
	l := newLin()
	one := big.NewInt(1)
	var rec func(t *Term, k *big.Int)
	rec = func(t *Term, k *big.Int) {
		if v, ok := t.IntVal(); ok {
			l.c.Add(l.c, new(big.Int).Mul(v, k))
			return
		}
		switch t.Op {
		case "+":
			for _, a := range t.Args {
				rec(a, k)
			}
			return
		case "-":
			if len(t.Args) == 1 {
				rec(t.Args[0], new(big.Int).Neg(k))
				return
			}
			rec(t.Args[0], k)
			for _, a := range t.Args[1:] {
				rec(a, new(big.Int).Neg(k))
			}
			return
		case "*":
			if len(t.Args) == 2 {
				if v, ok := t.Args[0].IntVal(); ok {
					rec(t.Args[1], new(big.Int).Mul(k, v))
					return
				}
				if v, ok := t.Args[1].IntVal(); ok {
					rec(t.Args[0], new(big.Int).Mul(k, v))
					return
				}
			}
		}
		l.addAtom(t, k)
	}
	rec(t, one)
	return l
}

func (l *lin) term() *Term {
	keys := make([]string, 0, len(l.atoms))
	for s := range l.atoms {
		keys = append(keys, s)
	}
	sort.Strings(keys)
	var pos, neg []*Term
	for _, s := range keys {
		c := l.atoms[s]
		t := l.terms[s]
		abs := new(big.Int).Abs(c)
		var m *Term
		if abs.Cmp(big.NewInt(1)) == 0 {
			m = t
		} else {
			m = App("*", SInt, BigLit(abs), t)
		}
		if c.Sign() > 0 {
			pos = append(pos, m)
		} else {
			neg = append(neg, m)
		}
	}
	if l.c.Sign() > 0 {
		pos = append(pos, BigLit(l.c))
	} else if l.c.Sign() < 0 {
		neg = append(neg, BigLit(new(big.Int).Neg(l.c)))
	}
	var p *Term
	switch len(pos) {
	case 0:
		if len(neg) == 0 {
			return IntLit(0)
		}
		p = nil
	case 1:
		p = pos[0]
	default:
		p = App("+", SInt, pos...)
	}
	if len(neg) == 0 {
		return p
	}
	if p == nil {
		if len(neg) == 1 {
			return App("-", SInt, neg[0])
		}
		return App("-", SInt, App("+", SInt, neg...))
	}
	return App("-", SInt, append([]*Term{p}, neg...)...)
}

func norm(t *Term) *Term {
	if t.Sort != SInt {
		return t
	}
	switch t.Op {
	case "+", "-", "*":
		return linOf(t).term()
	}
	return t
}

func Add(a, b *Term) *Term { return norm(App("+", SInt, a, b)) }
func Sub(a, b *Term) *Term { return norm(App("-", SInt, a, b)) }
func Neg(a *Term) *Term    { return norm(App("-", SInt, a)) }
func Mul(a, b *Term) *Term {
	if _, ok := a.IntVal(); ok {
		return norm(App("*", SInt, a, b))
	}
	if _, ok := b.IntVal(); ok {
		return norm(App("*", SInt, a, b))
	}
	return App("*", SInt, a, b)
}

func AddC(a *Term, c int64) *Term { return Add(a, IntLit(c)) }

// Go's truncated division and remainder on mathematical integers.
func GoDiv(a, b *Term) *Term {
	if av, ok := a.IntVal(); ok {
		if bv, ok := b.IntVal(); ok && bv.Sign() != 0 {
			return BigLit(new(big.Int).Quo(av, bv))
		}
	}
	return App("godiv", SInt, a, b)
}
func GoMod(a, b *Term) *Term {
	if av, ok := a.IntVal(); ok {
		if bv, ok := b.IntVal(); ok && bv.Sign() != 0 {
			return BigLit(new(big.Int).Rem(av, bv))
		}
	}
	return App("gomod", SInt, a, b)
}

// Euclidean div/mod (SMT-LIB), used for unsigned and for constant shifts.
func EDiv(a, b *Term) *Term {
	if av, ok := a.IntVal(); ok {
		if bv, ok := b.IntVal(); ok && bv.Sign() > 0 {
			q := new(big.Int)
			m := new(big.Int)
			q.DivMod(av, bv, m)
			return BigLit(q)
		}
	}
	return App("div", SInt, a, b)
}
func EMod(a, b *Term) *Term {
	if av, ok := a.IntVal(); ok {
		if bv, ok := b.IntVal(); ok && bv.Sign() > 0 {
			q := new(big.Int)
			m := new(big.Int)
			q.DivMod(av, bv, m)
			return BigLit(m)
		}
	}
	return App("mod", SInt, a, b)
}

func cmpLits(op string, a, b *Term) (*Term, bool) {
	av, ok1 := a.IntVal()
	bv, ok2 := b.IntVal()
	if !ok1 || !ok2 {
		return nil, false
	}
	c := av.Cmp(bv)
	switch op {
	case "<":
		return BoolLit(c < 0), true
	case "<=":
		return BoolLit(c <= 0), true
	case ">":
		return BoolLit(c > 0), true
	case ">=":
		return BoolLit(c >= 0), true
	case "=":
		return BoolLit(c == 0), true
	}
	return nil, false
}

func Cmp(op string, a, b *Term) *Term {
	if r, ok := cmpLits(op, a, b); ok {
		return r
	}
	return App(op, SBool, a, b)
}
func Lt(a, b *Term) *Term { return Cmp("<", a, b) }
func Le(a, b *Term) *Term { return Cmp("<=", a, b) }
func Gt(a, b *Term) *Term { return Cmp(">", a, b) }
func Ge(a, b *Term) *Term { return Cmp(">=", a, b) }
func Eq(a, b *Term) *Term {
	if a.Sort == SInt {
		if r, ok := cmpLits("=", a, b); ok {
			return r
		}
	}
	if a == b || a.String() == b.String() {
		return True
	}
	return App("=", SBool, a, b)
}
func Ne(a, b *Term) *Term { return Not(Eq(a, b)) }

func Not(a *Term) *Term {
	if a.IsTrue() {
		return False
	}
	if a.IsFalse() {
		return True
	}
	if a.Op == "not" {
		return a.Args[0]
	}
	return App("not", SBool, a)
}

func And(as ...*Term) *Term {
	var out []*Term
	for _, a := range as {
		if a == nil || a.IsTrue() {
			continue
		}
		if a.IsFalse() {
			return False
		}
		if a.Op == "and" {
			out = append(out, a.Args...)
			continue
		}
		out = append(out, a)
	}
	switch len(out) {
	case 0:
		return True
	case 1:
		return out[0]
	}
	return App("and", SBool, out...)
}

func Or(as ...*Term) *Term {
	var out []*Term
	for _, a := range as {
		if a == nil || a.IsFalse() {
			continue
		}
		if a.IsTrue() {
			return True
		}
		if a.Op == "or" {
			out = append(out, a.Args...)
			continue
		}
		out = append(out, a)
	}
	switch len(out) {
	case 0:
		return False
	case 1:
		return out[0]
	}
	return App("or", SBool, out...)
}

func Implies(a, b *Term) *Term {
	if a.IsTrue() {
		return b
	}
	if a.IsFalse() || b.IsTrue() {
		return True
	}
	return App("=>", SBool, a, b)
}

func Ite(c, a, b *Term) *Term {
	if c.IsTrue() {
		return a
	}
	if c.IsFalse() {
		return b
	}
	if a.String() == b.String() {
		return a
	}
	if a.Sort == SBool {
		if a.IsTrue() && b.IsFalse() {
			return c
		}
		if a.IsFalse() && b.IsTrue() {
			return Not(c)
		}
	}
	return App("ite", a.Sort, c, a, b)
}

// arrays
func elemSortOfArr(arr string) string {
	// "(Array Int X)" -> X
	if strings.HasPrefix(arr, "(Array Int ") {
		return arr[len("(Array Int ") : len(arr)-1]
	}
	panic("not an array sort: " + arr)
}

// defOf maps the name of a defined constant to its defining term (reset per
// function); belowBase holds terms known to be smaller than every fresh
// reference (parameters and other memory that existed at entry). Both let
// Select resolve reads over store chains at generation time.
var defOf = map[string]*Term{}
var belowBase = map[string]bool{}
var baseAllocName = "alloc@0"

// simplePatternsOnly (`opt patterns=simple`): never use nested selects as triggers.
var simplePatternsOnly bool

func resetTermTables() {
	simplePatternsOnly = false
	// names of bound variables carry this counter: restarting it per function makes the query
	// text of one function independent of every other function and contract (stable hashes
	// for the result cache and the solver hints)
	freshCounter = 0
	defOf = map[string]*Term{}
	belowBase = map[string]bool{}
}

// distinctTerms: provably different integer terms (syntactic, sound).
func distinctTerms(a, b *Term) bool {
	d := linOf(App("-", SInt, a, b))
	if len(d.atoms) == 0 {
		return d.c.Sign() != 0
	}
	// fresh reference (alloc@0 + c, c >= 0) versus memory that existed at entry
	isFresh := func(t *Term) bool {
		l := linOf(t)
		if len(l.atoms) != 1 || l.c.Sign() < 0 {
			return false
		}
		c, ok := l.atoms[baseAllocName]
		return ok && c.Cmp(big.NewInt(1)) == 0
	}
	if (isFresh(a) && belowBase[b.String()]) || (isFresh(b) && belowBase[a.String()]) {
		return true
	}
	return false
}

func Select(a, i *Term) *Term {
	// read-over-write resolution through store chains and defined constants.
	// named is the outermost term we may still use as the array if resolution
	// stops: a constant, or the original term when it is not a constant.
	cur := a
	named := a
	for depth := 0; depth < 64; depth++ {
		if cur.Op == "var" {
			named = cur
			if d, ok := defOf[cur.Name]; ok {
				cur = d
				continue
			}
			break
		}
		if cur.Op != "store" {
			break
		}
		if cur.Args[1].String() == i.String() {
			return cur.Args[2]
		}
		if distinctTerms(cur.Args[1], i) {
			cur = cur.Args[0]
			if named.Op != "var" || defOf[named.Name] == nil {
				named = cur
			} else {
				// we are inside the definition of `named`; once we step below the
				// store, the remaining array is cur itself
				named = cur
			}
			continue
		}
		break
	}
	return App("select", elemSortOfArr(named.Sort), named, i)
}

func Store(a, i, v *Term) *Term { return App("store", a.Sort, a, i, v) }

// slices
func MkSlice(ref, off, ln, cp *Term) *Term { return App("mk-slice", SSlice, ref, off, ln, cp) }
func sliceAcc(name string, idx int, s *Term) *Term {
	if s.Op == "mk-slice" {
		return s.Args[idx]
	}
	if s.Op == "ite" {
		return Ite(s.Args[0], sliceAcc(name, idx, s.Args[1]), sliceAcc(name, idx, s.Args[2]))
	}
	return App(name, SInt, s)
}
func SRef(s *Term) *Term { return sliceAcc("s-ref", 0, s) }
func SOff(s *Term) *Term { return sliceAcc("s-off", 1, s) }
func SLen(s *Term) *Term { return sliceAcc("s-len", 2, s) }
func SCap(s *Term) *Term { return sliceAcc("s-cap", 3, s) }

var NilSlice = MkSlice(IntLit(0), IntLit(0), IntLit(0), IntLit(0))

func Forall(bound []*Term, body *Term, pats ...[]*Term) *Term {
	if body.IsTrue() {
		return True
	}
	return &Term{Op: "forall", Sort: SBool, Bound: bound, Args: []*Term{body}, Pats: pats}
}
func Exists(bound []*Term, body *Term, pats ...[]*Term) *Term {
	if body.IsFalse() {
		return False
	}
	return &Term{Op: "exists", Sort: SBool, Bound: bound, Args: []*Term{body}, Pats: pats}
}

// Subst replaces variables (by name) in t, rebuilding through the smart
// constructors so that linear normal forms are re-established.
func Subst(t *Term, m map[string]*Term) *Term {
	switch t.Op {
	case "var":
		if r, ok := m[t.Name]; ok {
			return r
		}
		return t
	case "lit":
		return t
	case "forall", "exists":
		inner := m
		for _, b := range t.Bound {
			if _, ok := m[b.Name]; ok {
				inner = map[string]*Term{}
				for k, v := range m {
					inner[k] = v
				}
				for _, b := range t.Bound {
					delete(inner, b.Name)
				}
				break
			}
		}
		body := Subst(t.Args[0], inner)
		var pats [][]*Term
		for _, p := range t.Pats {
			var np []*Term
			for _, x := range p {
				np = append(np, Subst(x, inner))
			}
			pats = append(pats, np)
		}
		return &Term{Op: t.Op, Sort: SBool, Bound: t.Bound, Args: []*Term{body}, Pats: pats}
	}
	changed := false
	args := make([]*Term, len(t.Args))
	for i, a := range t.Args {
		args[i] = Subst(a, m)
		if args[i] != a {
			changed = true
		}
	}
	if !changed {
		return t
	}
	return rebuild(t, args)
}

func rebuild(t *Term, args []*Term) *Term {
	switch t.Op {
	case "+", "-", "*":
		return norm(App(t.Op, SInt, args...))
	case "select":
		return Select(args[0], args[1])
	case "and":
		return And(args...)
	case "or":
		return Or(args...)
	case "not":
		return Not(args[0])
	case "=>":
		return Implies(args[0], args[1])
	case "ite":
		return Ite(args[0], args[1], args[2])
	case "=":
		return Eq(args[0], args[1])
	case "<", "<=", ">", ">=":
		return Cmp(t.Op, args[0], args[1])
	case "s-ref":
		return SRef(args[0])
	case "s-off":
		return SOff(args[0])
	case "s-len":
		return SLen(args[0])
	case "s-cap":
		return SCap(args[0])
	case "div":
		return EDiv(args[0], args[1])
	case "mod":
		return EMod(args[0], args[1])
	case "godiv":
		return GoDiv(args[0], args[1])
	case "gomod":
		return GoMod(args[0], args[1])
	}
	return &Term{Op: t.Op, Name: t.Name, Sort: t.Sort, Args: args}
}

// Mentions reports whether variable name occurs free in t.
func Mentions(t *Term, name string) bool {
	switch t.Op {
	case "var":
		return t.Name == name
	case "lit":
		return false
	case "forall", "exists":
		for _, b := range t.Bound {
			if b.Name == name {
				return false
			}
		}
	}
	for _, a := range t.Args {
		if Mentions(a, name) {
			return true
		}
	}
	return false
}

// collectSelects gathers select terms whose index mentions v.
func collectSelects(t *Term, v string, out *[]*Term) {
	if t.Op == "select" && Mentions(t.Args[1], v) {
		*out = append(*out, t)
	}
	if t.Op == "forall" || t.Op == "exists" {
		for _, b := range t.Bound {
			if b.Name == v {
				return
			}
		}
	}
	for _, a := range t.Args {
		collectSelects(a, v, out)
	}
}

var freshCounter int

func freshName(prefix string) string {
	freshCounter++
	return fmt.Sprintf("%s!%d", prefix, freshCounter)
}

// MkQuant builds forall/exists k in [lo,hi): body, re-expressed over absolute
// array indices when the body indexes arrays at k plus a loop-invariant base.
// boundVarsIn collects the names of quantifier-bound variables (they contain '?') in t.
func boundVarsIn(t *Term, out map[string]bool) {
	if t.Op == "var" && strings.Contains(t.Name, "?") {
		out[t.Name] = true
	}
	for _, a := range t.Args {
		boundVarsIn(a, out)
	}
}

// outerBound: names of bound variables of enclosing quantifiers (set by the
// contract evaluator); a base offset may mention those, but not variables bound
// further inside.
var outerBound = map[string]bool{}

func MkQuant(forall bool, k *Term, lo, hi, body *Term) *Term {
	var sels []*Term
	collectSelects(body, k.Name, &sels)
	one := big.NewInt(1)
	var base *lin
	// choose the base of the first select whose index is k + base with coeff 1
	for _, s := range sels {
		l := linOf(s.Args[1])
		c, ok := l.atoms[k.Name]
		if !ok || c.Cmp(one) != 0 {
			continue
		}
		b := newLin()
		b.addLin(l, one)
		b.addAtom(k, big.NewInt(-1))
		b.c = new(big.Int) // drop the constant part: index K+c keeps c
		if len(b.atoms) == 0 {
			base = nil
			break
		}
		// the base must not mention other bound variables; we cannot know
		// them here, so only accept bases built from non-bound symbols
		// (bound variable names contain '?').
		okBase := true
		for _, at := range b.terms {
			vs := map[string]bool{}
			boundVarsIn(at, vs)
			for n := range vs {
				// only the offset of a slice that depends on an enclosing bound
				// variable (e.g. the v-th neighbour list) is a sensible base
				if !outerBound[n] || at.Op != "s-off" {
					okBase = false
				}
			}
		}
		if okBase {
			base = b
			break
		}
	}
	bv := k
	if base != nil {
		K := Var(k.Name+"a", SInt)
		bt := base.term()
		body = Subst(body, map[string]*Term{k.Name: Sub(K, bt)})
		lo = Add(lo, bt)
		hi = Add(hi, bt)
		bv = K
	}
	rng := And(Le(lo, bv), Lt(bv, hi))
	if !forall {
		pats := simplePatterns(body, bv)
		return Exists([]*Term{bv}, And(rng, body), pats...)
	}
	// forall distributes over conjunction: one quantifier per conjunct, each
	// with its own (most specific) triggers. This avoids matching loops through
	// nested indexing such as rep[ds[x]] / ds[rep[x]].
	var parts []*Term
	splitConj(body, nil, &parts)
	var out []*Term
	for _, part := range parts {
		var pats [][]*Term
		if !simplePatternsOnly {
			pats = nestedPatterns(part, bv)
		}
		if len(pats) == 0 {
			pats = simplePatterns(part, bv)
		}
		if len(pats) == 0 {
			// value-quantified: no array index to trigger on. Guard with the
			// always-true predicate trig (axiom: forall x. trig(x)) and use it as
			// the pattern, so that skolem witnesses of goals instantiate hypotheses.
			tr := App("trig", SBool, bv)
			out = append(out, Forall([]*Term{bv}, Implies(And(tr, rng), part), []*Term{tr}))
			continue
		}
		out = append(out, Forall([]*Term{bv}, Implies(rng, part), pats...))
	}
	return And(out...)
}

// splitConj flattens body into conjuncts, pushing implications inward:
// g => (a && b) becomes (g => a), (g => b).
func splitConj(t *Term, guards []*Term, out *[]*Term) {
	switch t.Op {
	case "and":
		for _, a := range t.Args {
			splitConj(a, guards, out)
		}
		return
	case "=>":
		splitConj(t.Args[1], append(append([]*Term{}, guards...), t.Args[0]), out)
		return
	}
	if len(guards) == 0 {
		*out = append(*out, t)
		return
	}
	*out = append(*out, Implies(And(guards...), t))
}

// simplePatterns: selects indexed by bv + const.
func simplePatterns(body, bv *Term) [][]*Term {
	one := big.NewInt(1)
	var pats [][]*Term
	var sels []*Term
	collectSelects(body, bv.Name, &sels)
	seen := map[string]bool{}
	for _, s := range sels {
		l := linOf(s.Args[1])
		c, ok := l.atoms[bv.Name]
		if !ok || c.Cmp(one) != 0 || len(l.atoms) != 1 {
			continue
		}
		// array term must not mention other bound vars of inner quantifiers
		if strings.Contains(s.Args[0].String(), "?") && !onlyBound(s.Args[0], bv.Name) {
			continue
		}
		key := s.String()
		if !seen[key] {
			seen[key] = true
			pats = append(pats, []*Term{s})
		}
	}
	return pats
}

// nestedPatterns: outermost selects whose index contains another select on bv
// (e.g. rep[ds[x]]); such a fact is only instantiated where the nested term
// already occurs, which is what breaks matching loops.
func nestedPatterns(body, bv *Term) [][]*Term {
	var pats [][]*Term
	seen := map[string]bool{}
	var rec func(t *Term, inQuant bool)
	rec = func(t *Term, inQuant bool) {
		if t.Op == "forall" || t.Op == "exists" {
			return // do not take triggers from inside inner quantifiers
		}
		if t.Op == "select" && Mentions(t.Args[1], bv.Name) {
			var inner []*Term
			collectSelects(t.Args[1], bv.Name, &inner)
			if len(inner) > 0 && onlyBound(t, bv.Name) {
				key := t.String()
				if !seen[key] {
					seen[key] = true
					pats = append(pats, []*Term{t})
				}
				return
			}
		}
		for _, a := range t.Args {
			rec(a, inQuant)
		}
	}
	rec(body, false)
	return pats
}

func onlyBound(t *Term, name string) bool {
	ok := true
	var rec func(t *Term)
	rec = func(t *Term) {
		if t.Op == "var" && strings.Contains(t.Name, "?") && t.Name != name && !outerBound[t.Name] && !outerBound[strings.TrimSuffix(t.Name, "a")] {
			ok = false
		}
		for _, a := range t.Args {
			rec(a)
		}
	}
	rec(t)
	return ok
}
