package main

// Run-time contract checking (RAC): the contract of a function is compiled to
// Go and executed against the REAL code on an exhaustively enumerated small
// domain, through an in-package test injected with `go test -overlay` (nothing
// is written into /repo). Used for (a) replay: finding a concrete failing input
// for an undischarged obligation, (b) labelled bounded stand-ins, (c) the
// fallback when a contract no longer resolves against refactored code.

import (
	"bytes"
	"context"
	"encoding/json"
	"fmt"
	"go/types"
	"os"
	"os/exec"
	"path/filepath"
	"sort"
	"strings"
	"time"

	"golang.org/x/tools/go/ssa"
)

type RacResult struct {
	Ran    bool
	Cases  int
	Input  string
	Clause string
	Cmd    string
	Note   string
	Bound  string
}

type racComp struct {
	g     *Gen
	sf    *SpecFile
	pkg   *types.Package
	olds  []string // hoisted old() snapshots: Go statements
	nOld  int
	used  map[string]bool
	err   error
	inOld bool
}

func (c *racComp) fail(format string, args ...interface{}) {
	if c.err == nil {
		c.err = fmt.Errorf(format, args...)
	}
}

// expr compiles a contract expression to Go; kind is "int", "bool" or "other".
func (c *racComp) expr(e *Expr, bound map[string]bool) (string, string) {
	switch e.Kind {
	case "int":
		return e.Name, "int"
	case "bool":
		return e.Name, "bool"
	case "nil":
		return "nil", "other"
	case "ident":
		switch e.Name {
		case "MaxInt":
			return "int(^uint(0) >> 1)", "int"
		case "MinInt":
			return "(-int(^uint(0)>>1) - 1)", "int"
		}
		return e.Name, "other"
	case "unop":
		x, k := c.expr(e.Args[0], bound)
		if e.Op == "!" {
			return "!(" + x + ")", "bool"
		}
		return "-(" + x + ")", k
	case "deref":
		x, _ := c.expr(e.Args[0], bound)
		return "(*" + x + ")", "other"
	case "binop":
		a, ka := c.expr(e.Args[0], bound)
		b, _ := c.expr(e.Args[1], bound)
		switch e.Op {
		case "==>":
			return "(!(" + a + ") || (" + b + "))", "bool"
		case "<==>":
			return "((" + a + ") == (" + b + "))", "bool"
		case "&&", "||":
			return "(" + a + " " + e.Op + " " + b + ")", "bool"
		case "==", "!=", "<", "<=", ">", ">=":
			return "(" + a + " " + e.Op + " " + b + ")", "bool"
		default:
			return "(" + a + " " + e.Op + " " + b + ")", ka
		}
	case "ite":
		cnd, _ := c.expr(e.Args[0], bound)
		a, ka := c.expr(e.Args[1], bound)
		b, _ := c.expr(e.Args[2], bound)
		if ka == "bool" {
			return "racIteBool(" + cnd + ", func() bool { return " + a + " }, func() bool { return " + b + " })", "bool"
		}
		return "racIteInt(" + cnd + ", func() int { return int(" + a + ") }, func() int { return int(" + b + ") })", "int"
	case "index":
		a, _ := c.expr(e.Args[0], bound)
		i, _ := c.expr(e.Args[1], bound)
		return a + "[" + i + "]", "other"
	case "slice":
		a, _ := c.expr(e.Args[0], bound)
		lo, hi := "", ""
		if e.Args[1] != nil {
			lo, _ = c.expr(e.Args[1], bound)
		}
		if e.Args[2] != nil {
			hi, _ = c.expr(e.Args[2], bound)
		}
		return a + "[" + lo + ":" + hi + "]", "other"
	case "field":
		a, _ := c.expr(e.Args[0], bound)
		return a + "." + e.Name, "other"
	case "quant":
		lo, _ := c.expr(e.Lo, bound)
		hi, _ := c.expr(e.Hi, bound)
		nb := map[string]bool{}
		for k := range bound {
			nb[k] = true
		}
		nb[e.Var] = true
		body, _ := c.expr(e.Args[0], nb)
		fn := "racForall"
		if e.Op == "exists" {
			fn = "racExists"
		}
		return fmt.Sprintf("%s(%s, %s, func(%s int) bool { return %s })", fn, lo, hi, e.Var, body), "bool"
	case "call":
		switch e.Name {
		case "len", "cap", "min", "max":
			var as []string
			for _, a := range e.Args {
				x, _ := c.expr(a, bound)
				as = append(as, x)
			}
			if e.Name == "min" || e.Name == "max" {
				return "rac" + strings.Title(e.Name) + "(" + strings.Join(as, ", ") + ")", "int"
			}
			return e.Name + "(" + strings.Join(as, ", ") + ")", "int"
		case "abs":
			x, _ := c.expr(e.Args[0], bound)
			return "racAbs(" + x + ")", "int"
		case "pow2":
			x, _ := c.expr(e.Args[0], bound)
			return "(1 << uint(" + x + "))", "int"
		case "old":
			if c.inOld {
				x, k := c.expr(e.Args[0], bound)
				return x, k
			}
			if mentionsBound(e.Args[0], bound) {
				// old(s[p]) with p bound: hoist the largest bound-free prefix
				return c.oldWithBound(e.Args[0], bound)
			}
			c.inOld = true
			x, k := c.expr(e.Args[0], bound)
			c.inOld = false
			c.nOld++
			name := fmt.Sprintf("racOld%d", c.nOld)
			c.olds = append(c.olds, fmt.Sprintf("%s := racSnap(%s).(%s)", name, x, "RACTYPE:"+x))
			_ = k
			return name, k
		case "fresh":
			x, _ := c.expr(e.Args[0], bound)
			return "racFresh(" + x + ", racInputs)", "bool"
		case "unchanged":
			c.inOld = true
			x, _ := c.expr(e.Args[0], bound)
			c.inOld = false
			c.nOld++
			name := fmt.Sprintf("racOld%d", c.nOld)
			c.olds = append(c.olds, fmt.Sprintf("%s := racSnap(%s).(%s)", name, x, "RACTYPE:"+x))
			return "reflect.DeepEqual(racNorm(" + x + "), racNorm(" + name + "))", "bool"
		case "sameslice", "disjoint", "ref", "off", "pre":
			c.fail("%s() is not executable", e.Name)
			return "true", "bool"
		}
		f := c.specFunc(e.Name)
		if f == nil {
			c.fail("unknown spec function %s", e.Name)
			return "true", "bool"
		}
		c.used[e.Name] = true
		var as []string
		for _, a := range e.Args {
			x, _ := c.expr(a, bound)
			as = append(as, x)
		}
		k := "other"
		switch strings.TrimSpace(f.Ret) {
		case "bool":
			k = "bool"
		case "int":
			k = "int"
		}
		return "racs_" + e.Name + "(" + strings.Join(as, ", ") + ")", k
	}
	c.fail("cannot compile %s", e)
	return "true", "bool"
}

// oldWithBound handles old(X[p]) / old(len(X)) patterns where only indices are bound.
func (c *racComp) oldWithBound(e *Expr, bound map[string]bool) (string, string) {
	switch e.Kind {
	case "index":
		if !mentionsBound(e.Args[0], bound) {
			base, _ := c.expr(&Expr{Kind: "call", Name: "old", Args: []*Expr{e.Args[0]}}, bound)
			i, _ := c.expr(e.Args[1], bound)
			return base + "[" + i + "]", "other"
		}
	}
	c.fail("old() over bound variables is not executable: %s", e)
	return "0", "int"
}

func mentionsBound(e *Expr, bound map[string]bool) bool {
	if e == nil {
		return false
	}
	if e.Kind == "ident" && bound[e.Name] {
		return true
	}
	for _, a := range e.Args {
		if mentionsBound(a, bound) {
			return true
		}
	}
	return mentionsBound(e.Lo, bound) || mentionsBound(e.Hi, bound)
}

func (c *racComp) specFunc(name string) *SpecFunc {
	if c.sf != nil {
		if f, ok := c.sf.Specs[name]; ok {
			return f
		}
	}
	if f, ok := c.g.globalSpecs[name]; ok {
		return f
	}
	return nil
}

const racHelpers = `
func racForall(lo, hi int, f func(int) bool) bool {
	for k := lo; k < hi; k++ {
		if !f(k) {
			return false
		}
	}
	return true
}
func racExists(lo, hi int, f func(int) bool) bool {
	for k := lo; k < hi; k++ {
		if f(k) {
			return true
		}
	}
	return false
}
func racIteBool(c bool, a, b func() bool) bool {
	if c {
		return a()
	}
	return b()
}
func racIteInt(c bool, a, b func() int) int {
	if c {
		return a()
	}
	return b()
}
func racMin(a, b int) int {
	if a < b {
		return a
	}
	return b
}
func racMax(a, b int) int {
	if a > b {
		return a
	}
	return b
}
func racAbs(a int) int {
	if a < 0 {
		return -a
	}
	return a
}
// racSnap deep-copies slices (and pointers to slices) so that old() sees entry contents.
func racSnap(x interface{}) interface{} {
	v := reflect.ValueOf(x)
	return racCopyValue(v).Interface()
}
func racCopyValue(v reflect.Value) reflect.Value {
	switch v.Kind() {
	case reflect.Slice:
		if v.IsNil() {
			return v
		}
		n := reflect.MakeSlice(v.Type(), v.Len(), v.Len())
		for i := 0; i < v.Len(); i++ {
			n.Index(i).Set(racCopyValue(v.Index(i)))
		}
		return n
	case reflect.Ptr:
		if v.IsNil() {
			return v
		}
		n := reflect.New(v.Type().Elem())
		n.Elem().Set(racCopyValue(v.Elem()))
		return n
	case reflect.Struct:
		n := reflect.New(v.Type()).Elem()
		n.Set(v)
		for i := 0; i < v.NumField(); i++ {
			if n.Field(i).CanSet() {
				n.Field(i).Set(racCopyValue(v.Field(i)))
			}
		}
		return n
	}
	return v
}
// racNorm maps nil and empty slices to the same value for comparisons.
func racNorm(x interface{}) interface{} {
	v := reflect.ValueOf(x)
	if v.Kind() == reflect.Slice && v.Len() == 0 {
		return reflect.MakeSlice(v.Type(), 0, 0).Interface()
	}
	return x
}
// racFresh: the slice shares no backing memory with any input slice.
func racFresh(x interface{}, inputs []interface{}) bool {
	v := reflect.ValueOf(x)
	if v.Kind() != reflect.Slice || v.Cap() == 0 {
		return true
	}
	lo := v.Pointer()
	hi := lo + uintptr(v.Cap())*v.Type().Elem().Size()
	for _, in := range inputs {
		w := reflect.ValueOf(in)
		if w.Kind() == reflect.Ptr && !w.IsNil() {
			w = w.Elem()
		}
		if w.Kind() != reflect.Slice || w.Cap() == 0 {
			continue
		}
		l2 := w.Pointer()
		h2 := l2 + uintptr(w.Cap())*w.Type().Elem().Size()
		if lo < h2 && l2 < hi {
			return false
		}
	}
	return true
}
func racIntSlices(maxLen, lo, hi int) [][]int {
	out := [][]int{nil}
	level := [][]int{{}}
	for l := 1; l <= maxLen; l++ {
		var next [][]int
		for _, p := range level {
			for v := lo; v <= hi; v++ {
				q := append(append([]int{}, p...), v)
				next = append(next, q)
			}
		}
		out = append(out, next...)
		level = next
	}
	out = append(out, []int{})
	return out
}
func racCall(f func()) (p interface{}) {
	defer func() { p = recover() }()
	f()
	return nil
}
func racEval(f func() bool) (ok bool, evaluable bool) {
	defer func() {
		if recover() != nil {
			ok, evaluable = true, false
		}
	}()
	return f(), true
}
// racSpare returns a copy of s with extra capacity filled with a sentinel.
func racSpare(s []int, extra int) []int {
	b := make([]int, len(s)+extra)
	copy(b, s)
	for i := len(s); i < len(b); i++ {
		b[i] = 7777
	}
	return b[:len(s)]
}
`

type racParam struct {
	name    string
	goType  string
	loops   string // loop header(s)
	setup   string // per-iteration setup statements
	closes  int
	callArg string
	repr    string // fmt args for printing
	isSlice bool
	input   string // expression registered in racInputs
}

func typeString(t types.Type, pkg *types.Package) string {
	return types.TypeString(t, func(p *types.Package) string {
		if p == pkg {
			return ""
		}
		return p.Name()
	})
}

// racDomain describes how a parameter is enumerated.
func racDomain(p *ssa.Parameter, pkg *types.Package, spec *FuncSpec, variadic bool, idx int, tier string) (*racParam, string) {
	name := p.Name()
	t := p.Type()
	rp := &racParam{name: name, goType: typeString(t, pkg)}
	maxLen, vlo, vhi := 3, -1, 3
	ilo, ihi := -2, 5
	if tier == "thorough" {
		maxLen, vlo, vhi = 4, -1, 4
		ilo, ihi = -3, 8
	}
	if o := spec.Opts["rac."+name]; o != "" {
		// "len 0..3 vals -1..3" or "lo..hi"
		var a, b, c2, d int
		if n, _ := fmt.Sscanf(o, "len %d..%d vals %d..%d", &a, &b, &c2, &d); n == 4 {
			maxLen, vlo, vhi = b, c2, d
		} else if n, _ := fmt.Sscanf(o, "%d..%d", &a, &b); n == 2 {
			ilo, ihi = a, b
		}
	}
	bound := ""
	if ii, ok := basicInt(t); ok {
		lo := ilo
		if !ii.signed && lo < 0 {
			lo = 0
		}
		rp.loops = fmt.Sprintf("for _, %s_i := range racRange(%d, %d) { %s := %s(%s_i)\n", name, lo, ihi, name, rp.goType, name)
		rp.closes = 1
		rp.callArg = name
		rp.repr = name
		bound = fmt.Sprintf("%s in %d..%d", name, lo, ihi)
		return rp, bound
	}
	if isBool(t) {
		rp.loops = fmt.Sprintf("for _, %s := range []bool{false, true} {\n", name)
		rp.closes = 1
		rp.callArg = name
		rp.repr = name
		return rp, name + " in {false,true}"
	}
	if sl, ok := t.Underlying().(*types.Slice); ok {
		if b, ok := sl.Elem().Underlying().(*types.Basic); ok && b.Kind() == types.Int {
			rp.loops = fmt.Sprintf("for _, %s_raw := range racIntSlices(%d, %d, %d) { %s := %s(append([]int(nil), %s_raw...)); if %s_raw == nil { %s = nil }\n", name, maxLen, vlo, vhi, name, rp.goType, name, name, name)
			rp.closes = 1
			rp.callArg = name
			if variadic {
				rp.callArg = name + "..."
			}
			rp.repr = name
			rp.isSlice = true
			rp.input = name
			return rp, fmt.Sprintf("%s: all []int with len<=%d over %d..%d (plus nil)", name, maxLen, vlo, vhi)
		}
	}
	if pt, ok := t.Underlying().(*types.Pointer); ok {
		if sl, ok := pt.Elem().Underlying().(*types.Slice); ok {
			if b, ok := sl.Elem().Underlying().(*types.Basic); ok && b.Kind() == types.Int {
				et := typeString(pt.Elem(), pkg)
				rp.loops = fmt.Sprintf("for _, %s_raw := range racIntSlices(%d, %d, %d) { for _, %s_extra := range []int{0, 2, 5} { %s_v := %s(racSpare(%s_raw, %s_extra)); %s := &%s_v\n", name, maxLen, vlo, vhi, name, name, et, name, name, name, name)
				rp.closes = 2
				rp.callArg = name
				rp.repr = fmt.Sprintf("fmt.Sprintf(\"&%%v(cap+%%d)\", []int(*%s), %s_extra)", name, name)
				rp.isSlice = true
				rp.input = name
				return rp, fmt.Sprintf("%s: pointer to every []int with len<=%d over %d..%d, spare capacity 0/2/5", name, maxLen, vlo, vhi)
			}
		}
	}
	return nil, ""
}

// RacSearch builds and runs the run-time contract check of one function.
func (g *Gen) RacSearch(repo, verif, unit string, o *Obligation, sv *Solver, tier string) *RacResult {
	rr := &RacResult{}
	if strings.HasPrefix(unit, "lemma:") {
		rr.Note = "lemma: nothing to execute"
		return rr
	}
	if i := strings.Index(unit, ":"); i > 0 {
		return g.racGroup(repo, verif, unit[:i], unit[i+1:], tier)
	}
	fn := g.FindFunc(unit)
	if fn == nil {
		rr.Note = "function not found"
		return rr
	}
	spec := g.specFor(fn)
	pkg := fn.Pkg.Pkg
	if spec == nil {
		// a package-level custom harness can still stand in
		if _, err := os.Stat(filepath.Join(verif, "rac", "custom", "pkg_"+pkg.Name()+".go.txt")); err != nil {
			rr.Note = "no contract"
			return rr
		}
	}
	relDir := strings.TrimPrefix(strings.TrimPrefix(pkg.Path(), modPath), "/")
	outDir := filepath.Join(verif, "replay", "rac", sanitize(unit))
	os.MkdirAll(outDir, 0o755)
	testName := "TestRAC_" + sanitize(unit)
	var src string
	custom := filepath.Join(verif, "rac", "custom", sanitize(unit)+".go.txt")
	if _, err := os.Stat(custom); err != nil {
		custom = filepath.Join(verif, "rac", "custom", "pkg_"+pkg.Name()+".go.txt")
	}
	if data, err := os.ReadFile(custom); err == nil {
		src = string(data)
		rr.Bound = "custom harness " + custom
		if i := strings.Index(src, "// BOUND:"); i >= 0 {
			line := src[i+len("// BOUND:"):]
			if j := strings.Index(line, "\n"); j >= 0 {
				line = line[:j]
			}
			rr.Bound = strings.TrimSpace(line)
		}
		src = strings.ReplaceAll(src, "RAC_TIER", tier)
		src = strings.ReplaceAll(src, "TestRAC_CUSTOM", testName)
	} else {
		var err error
		src, rr.Bound, err = g.racSource(fn, spec, testName, tier)
		if err != nil {
			rr.Note = "contract not executable: " + err.Error()
			return rr
		}
	}
	testFile := filepath.Join(outDir, "zz_rac_test.go")
	os.WriteFile(testFile, []byte(src), 0o644)
	target := filepath.Join(repo, relDir, "zz_rac_verif_test.go")
	ov := map[string]map[string]string{"Replace": {target: testFile}}
	ovData, _ := json.Marshal(ov)
	ovFile := filepath.Join(outDir, "overlay.json")
	os.WriteFile(ovFile, ovData, 0o644)
	timeout := "120s"
	if tier == "thorough" {
		timeout = "600s"
	}
	args := []string{"test", "-v", "-overlay", ovFile, "-vet=off", "-count=1", "-timeout", timeout, "-run", "^" + testName + "$", "./" + relDir}
	rr.Cmd = "cd " + repo + " && GOFLAGS=-mod=mod GOPROXY=off go " + strings.Join(args, " ")
	ctx, cancel := context.WithTimeout(context.Background(), 11*time.Minute)
	defer cancel()
	cmd := exec.CommandContext(ctx, "go", args...)
	cmd.Dir = repo
	cmd.Env = append(os.Environ(), "GOFLAGS=-mod=mod", "GOPROXY=off", "GOSUMDB=off", "GOTOOLCHAIN=local")
	var out bytes.Buffer
	cmd.Stdout = &out
	cmd.Stderr = &out
	cmd.Run()
	text := out.String()
	os.WriteFile(filepath.Join(outDir, "output.txt"), []byte(text), 0o644)
	for _, line := range strings.Split(text, "\n") {
		line = strings.TrimSpace(line)
		if i := strings.Index(line, "RAC-CASES "); i >= 0 {
			fmt.Sscanf(line[i:], "RAC-CASES %d", &rr.Cases)
			rr.Ran = true
		}
		if i := strings.Index(line, "RAC-FAIL "); i >= 0 && rr.Input == "" {
			rest := line[i+len("RAC-FAIL "):]
			if j := strings.Index(rest, " input="); j >= 0 {
				rr.Clause = strings.TrimPrefix(rest[:j], "clause=")
				rr.Input = rest[j+len(" input="):]
			} else {
				rr.Clause = rest
				rr.Input = "(see output)"
			}
			rr.Ran = true
		}
	}
	if !rr.Ran {
		if strings.Contains(text, "panic: test timed out") {
			rr.Ran = true
			rr.Input = "(some enumerated input makes the function run for more than " + timeout + ": see " + filepath.Join(outDir, "output.txt") + ")"
			rr.Clause = "termination"
		} else {
			tail := text
			if len(tail) > 600 {
				tail = tail[len(tail)-600:]
			}
			rr.Note = "harness did not run: " + tail
		}
	}
	return rr
}

// racSource generates the in-package test for fn's contract.
func (g *Gen) racSource(fn *ssa.Function, spec *FuncSpec, testName, tier string) (string, string, error) {
	pkg := fn.Pkg.Pkg
	c := &racComp{g: g, sf: g.specFileOf(spec), pkg: pkg, used: map[string]bool{}}
	var params []*racParam
	var bounds []string
	sig := fn.Signature
	for i, p := range fn.Params {
		variadic := sig.Variadic() && i == len(fn.Params)-1
		rp, b := racDomain(p, pkg, spec, variadic, i, tier)
		if rp == nil {
			return "", "", fmt.Errorf("no enumerator for parameter %s of type %s", p.Name(), p.Type())
		}
		params = append(params, rp)
		bounds = append(bounds, b)
	}
	var body strings.Builder
	closes := 0
	for _, rp := range params {
		body.WriteString(rp.loops)
		closes += rp.closes
	}
	// inputs registry (for fresh())
	body.WriteString("racInputs := []interface{}{")
	for _, rp := range params {
		if rp.input != "" {
			body.WriteString(rp.input + ", ")
		}
	}
	body.WriteString("}\n_ = racInputs\n")
	// requires
	for _, r := range spec.Requires {
		code, _ := c.expr(r.E, map[string]bool{})
		fmt.Fprintf(&body, "if ok, ev := racEval(func() bool { return %s }); !ok || !ev { continue }\n", code)
	}
	body.WriteString("cases++\n")
	// input description
	var reprFmt, reprArgs []string
	for _, rp := range params {
		reprFmt = append(reprFmt, rp.name+"=%v")
		reprArgs = append(reprArgs, rp.repr)
	}
	fmt.Fprintf(&body, "inputDesc := fmt.Sprintf(%q, %s)\n", strings.Join(reprFmt, ","), strings.Join(reprArgs, ", "))
	// compile ensures first to collect old() snapshots
	type chk struct{ name, code string }
	var checks []chk
	for i, e := range spec.Ensures {
		code, _ := c.expr(e.E, map[string]bool{})
		nm := fmt.Sprintf("ensures#%d", i+1)
		if e.Name != "" {
			nm = "ensures:" + e.Name
		}
		checks = append(checks, chk{nm, code})
	}
	var pchecks []string
	for _, p := range spec.Panics {
		code, _ := c.expr(p.E, map[string]bool{})
		pchecks = append(pchecks, code)
	}
	// frame: every slice input not named in modifies is unchanged
	modNames := map[string]bool{}
	for _, m := range spec.Modifies {
		modNames[m.String()] = true
	}
	for _, rp := range params {
		if !rp.isSlice {
			continue
		}
		expr := rp.name
		isPtr := strings.HasPrefix(rp.repr, "fmt.Sprintf(\"&")
		if isPtr {
			expr = "*" + rp.name
		}
		if spec.ModAll || modNames[expr] || modNames["(*"+rp.name+")"] {
			continue
		}
		ue := &Expr{Kind: "call", Name: "unchanged", Args: []*Expr{{Kind: "ident", Name: rp.name}}}
		if isPtr {
			ue.Args[0] = &Expr{Kind: "deref", Args: []*Expr{{Kind: "ident", Name: rp.name}}}
		}
		code, _ := c.expr(ue, map[string]bool{})
		checks = append(checks, chk{"frame:" + expr + " unchanged", code})
	}
	if c.err != nil {
		return "", "", c.err
	}
	for _, o := range c.olds {
		// "name := racSnap(x).(RACTYPE:x)" — the type is recovered by reflection-free trick:
		// declare via a typed helper closure instead.
		i := strings.Index(o, " := racSnap(")
		name := o[:i]
		j := strings.LastIndex(o, ").(RACTYPE:")
		x := o[i+len(" := racSnap(") : j]
		fmt.Fprintf(&body, "%s := %s\n{ racTmp := racSnap(%s); reflect.ValueOf(&%s).Elem().Set(reflect.ValueOf(racTmp)) }\n", name, x, x, name)
	}
	// call
	res := sig.Results()
	var resNames []string
	for i := 0; i < res.Len(); i++ {
		n := res.At(i).Name()
		if n == "" || n == "_" {
			if res.Len() == 1 {
				n = "result"
			} else {
				n = fmt.Sprintf("result%d", i)
			}
		}
		resNames = append(resNames, n)
		fmt.Fprintf(&body, "var %s %s\n_ = %s\n", n, typeString(res.At(i).Type(), pkg), n)
	}
	var callArgs []string
	start := 0
	callee := fn.Name()
	if sig.Recv() != nil {
		callee = params[0].name + "." + fn.Name()
		start = 1
	}
	for _, rp := range params[start:] {
		callArgs = append(callArgs, rp.callArg)
	}
	call := callee + "(" + strings.Join(callArgs, ", ") + ")"
	if len(resNames) > 0 {
		call = strings.Join(resNames, ", ") + " = " + call
	}
	fmt.Fprintf(&body, "if p := racCall(func() { %s }); p != nil {\n", call)
	if len(pchecks) > 0 {
		fmt.Fprintf(&body, "if !(%s) { fmt.Printf(\"RAC-FAIL clause=unexpected-panic(%%v) input=%%s\\n\", p, inputDesc); t.Fatalf(\"panic %%v\", p) }\ncontinue\n}\n", strings.Join(pchecks, " || "))
	} else {
		body.WriteString("fmt.Printf(\"RAC-FAIL clause=unexpected-panic(%v) input=%s\\n\", p, inputDesc); t.Fatalf(\"panic %v\", p)\n}\n")
	}
	if res.Len() == 1 && resNames[0] != "result" {
		fmt.Fprintf(&body, "result := %s\n_ = result\n", resNames[0])
	}
	for _, ck := range checks {
		fmt.Fprintf(&body, "if ok, _ := racEval(func() bool { return %s }); !ok { fmt.Printf(\"RAC-FAIL clause=%s input=%%s\\n\", inputDesc); t.Fatalf(\"contract violated\") }\n", ck.code, ck.name)
	}
	body.WriteString(strings.Repeat("}\n", closes))

	var sb strings.Builder
	fmt.Fprintf(&sb, "package %s\n\n// Generated by /verif/govc (run-time contract check of %s). Not part of the repository.\n\nimport (\n\t\"fmt\"\n\t\"reflect\"\n\t\"testing\"\n)\n\nvar _ = reflect.DeepEqual\n", pkg.Name(), fn.Name())
	sb.WriteString(racHelpers)
	sb.WriteString("func racRange(lo, hi int) []int { var r []int; for i := lo; i <= hi; i++ { r = append(r, i) }; return r }\n")
	// spec functions (transitively used)
	emitted := map[string]bool{}
	for changed := true; changed; {
		changed = false
		var names []string
		for n := range c.used {
			names = append(names, n)
		}
		sort.Strings(names)
		for _, n := range names {
			if emitted[n] {
				continue
			}
			emitted[n] = true
			changed = true
			f := c.specFunc(n)
			if f.Opaque {
				return "", "", fmt.Errorf("opaque spec function %s needs a custom harness", n)
			}
			var ps []string
			for _, p := range f.Params {
				ps = append(ps, p.Name+" "+p.Type)
			}
			code, _ := c.expr(f.Body, map[string]bool{})
			fmt.Fprintf(&sb, "func racs_%s(%s) %s { return %s }\n", n, strings.Join(ps, ", "), f.Ret, code)
		}
	}
	if c.err != nil {
		return "", "", c.err
	}
	fmt.Fprintf(&sb, "\nfunc %s(t *testing.T) {\n\tcases := 0\n\tdefer func() { fmt.Printf(\"RAC-CASES %%d\\n\", cases) }()\n%s}\n", testName, body.String())
	return sb.String(), strings.Join(bounds, "; "), nil
}

// racGroup runs a hand-written group harness /verif/rac/custom/<pkg>_<group>.go.txt
// inside package <pkg> (bounded stand-ins that span several functions).
func (g *Gen) racGroup(repo, verif, pkgName, group, tier string) *RacResult {
	rr := &RacResult{}
	custom := filepath.Join(verif, "rac", "custom", sanitize(pkgName)+"_"+group+".go.txt")
	data, err := os.ReadFile(custom)
	if err != nil {
		rr.Note = "no group harness " + custom
		return rr
	}
	relDir := pkgName
	for path := range g.pkgs {
		rel := strings.TrimPrefix(strings.TrimPrefix(path, modPath), "/")
		if rel == pkgName || strings.HasSuffix(path, "/"+pkgName) {
			relDir = rel
		}
	}
	src := string(data)
	rr.Bound = "custom harness " + custom
	if i := strings.Index(src, "// BOUND:"); i >= 0 {
		line := src[i+len("// BOUND:"):]
		if j := strings.Index(line, "\n"); j >= 0 {
			line = line[:j]
		}
		rr.Bound = strings.TrimSpace(line)
	}
	testName := "TestRAC_" + sanitize(pkgName+"_"+group)
	src = strings.ReplaceAll(src, "RAC_TIER", tier)
	src = strings.ReplaceAll(src, "TestRAC_CUSTOM", testName)
	outDir := filepath.Join(verif, "replay", "rac", sanitize(pkgName+"_"+group))
	os.MkdirAll(outDir, 0o755)
	testFile := filepath.Join(outDir, "zz_rac_test.go")
	os.WriteFile(testFile, []byte(src), 0o644)
	target := filepath.Join(repo, relDir, "zz_rac_verif_test.go")
	ovData, _ := json.Marshal(map[string]map[string]string{"Replace": {target: testFile}})
	ovFile := filepath.Join(outDir, "overlay.json")
	os.WriteFile(ovFile, ovData, 0o644)
	timeout := "300s"
	if tier == "thorough" {
		timeout = "1200s"
	}
	args := []string{"test", "-v", "-overlay", ovFile, "-vet=off", "-count=1", "-timeout", timeout, "-run", "^" + testName + "$", "./" + relDir}
	rr.Cmd = "cd " + repo + " && GOFLAGS=-mod=mod GOPROXY=off go " + strings.Join(args, " ")
	ctx, cancel := context.WithTimeout(context.Background(), 25*time.Minute)
	defer cancel()
	cmd := exec.CommandContext(ctx, "go", args...)
	cmd.Dir = repo
	cmd.Env = append(os.Environ(), "GOFLAGS=-mod=mod", "GOPROXY=off", "GOSUMDB=off", "GOTOOLCHAIN=local")
	var out bytes.Buffer
	cmd.Stdout = &out
	cmd.Stderr = &out
	cmd.Run()
	text := out.String()
	os.WriteFile(filepath.Join(outDir, "output.txt"), []byte(text), 0o644)
	for _, line := range strings.Split(text, "\n") {
		line = strings.TrimSpace(line)
		if i := strings.Index(line, "RAC-CASES "); i >= 0 {
			fmt.Sscanf(line[i:], "RAC-CASES %d", &rr.Cases)
			rr.Ran = true
		}
		if i := strings.Index(line, "RAC-FAIL "); i >= 0 && rr.Input == "" {
			rest := line[i+len("RAC-FAIL "):]
			if j := strings.Index(rest, " input="); j >= 0 {
				rr.Clause = strings.TrimPrefix(rest[:j], "clause=")
				rr.Input = rest[j+len(" input="):]
			} else {
				rr.Clause = rest
				rr.Input = "(see output)"
			}
			rr.Ran = true
		}
	}
	if !rr.Ran {
		if strings.Contains(text, "panic: test timed out") {
			rr.Ran = true
			rr.Input = "(some enumerated input makes the code run for more than " + timeout + ": see " + filepath.Join(outDir, "output.txt") + ")"
			rr.Clause = "termination"
		} else {
			tail := text
			if len(tail) > 600 {
				tail = tail[len(tail)-600:]
			}
			rr.Note = "harness did not run: " + tail
		}
	}
	return rr
}
