package main

// `govc check`: decide one property — generate the obligations of every unit
// the property depends on, discharge them, match failures against the known
// findings file, replay, write evidence.

import (
	"encoding/json"
	"flag"
	"fmt"
	"os"
	"path/filepath"
	"runtime"
	"sort"
	"strconv"
	"strings"
	"time"

	"golang.org/x/tools/go/ssa"
)

type PropConfig struct {
	Title    string   `json:"title"`
	Units    []string `json:"units"`    // functions / lemmas under contract
	Bounded  []string `json:"bounded"`  // functions with a bounded stand-in (RAC)
	Decides  string   `json:"decides"`  // what the obligations decide
	NotDecided string `json:"not_decided"`
	Assumptions []string `json:"assumptions"`
	Meta     []string `json:"meta_arguments"`
	Extra    []string `json:"extra_checks"` // names of built-in extra engines (frame, lean, ...)
	FramePkgs []string `json:"frame_packages"`
	ReadOnly map[string][]string `json:"frame_read_only"`
	AllowSync []string `json:"frame_allow_sync"`
	FreshResults []string `json:"frame_fresh_results"`
	Category string `json:"category"` // manifest level category; "other" = proved core + labelled bounded stand-in
}

type KnownFinding struct {
	Property   string `json:"property"`
	Obligation string `json:"obligation"` // obligation name, or prefix ending in '*'
	Witness    string `json:"witness"`
	WhatFails  string `json:"what_fails"`
	Status     string `json:"status"` // open | fixed:<commit>
}

type Evidence struct {
	PropertyID string                 `json:"property_id"`
	Tier       string                 `json:"tier"`
	Seed       int                    `json:"seed"`
	Level      string                 `json:"level"`
	Coverage   map[string]interface{} `json:"coverage"`
	Assumptions []string              `json:"assumptions"`
	WallS      float64                `json:"wall_s"`
	Violations int                    `json:"violations"`
}

type unitResult struct {
	Name      string  `json:"name"`
	Kind      string  `json:"kind"`
	Obls      int     `json:"obligations"`
	Discharged int    `json:"discharged"`
	Level     string  `json:"level"`
	Termination bool  `json:"termination_proved"`
	Status    string  `json:"status"`
	SolverS   float64 `json:"solver_s"`
}

func loadJSON(path string, v interface{}) error {
	data, err := os.ReadFile(path)
	if err != nil {
		return err
	}
	return json.Unmarshal(data, v)
}

func matchFinding(kfs []KnownFinding, prop, obl string) *KnownFinding {
	for i := range kfs {
		k := &kfs[i]
		if k.Property != prop || k.Status != "open" {
			continue
		}
		if k.Obligation == obl {
			return k
		}
		if strings.HasSuffix(k.Obligation, "*") && strings.HasPrefix(obl, strings.TrimSuffix(k.Obligation, "*")) {
			return k
		}
	}
	return nil
}

func cmdCheck(args []string) int {
	fs := flag.NewFlagSet("check", flag.ExitOnError)
	repo := fs.String("repo", "/repo", "repository")
	verif := fs.String("verif", "/verif", "verif dir")
	prop := fs.String("prop", "", "property id")
	tier := fs.String("tier", "quick", "quick|thorough")
	fs.Parse(args)
	start := time.Now()
	seed := 0
	if s := os.Getenv("VERIF_SEED"); s != "" {
		if n, err := strconv.Atoi(s); err == nil {
			seed = n
		}
	}
	if t := os.Getenv("VERIF_TIER"); t == "quick" || t == "thorough" {
		*tier = t
	}
	var props map[string]*PropConfig
	if err := loadJSON(filepath.Join(*verif, "props.json"), &props); err != nil {
		fmt.Fprintln(os.Stderr, "props.json:", err)
		return 2
	}
	pc := props[*prop]
	if pc == nil {
		fmt.Fprintln(os.Stderr, "unknown property", *prop)
		return 2
	}
	var kfs []KnownFinding
	loadJSON(filepath.Join(*verif, "known_findings.json"), &kfs)

	g, err := LoadRepo(*repo, filepath.Join(*verif, "contracts", "extern.spec"))
	if err != nil {
		// the tree does not build with the contracts: that is a broken check
		// only if the tree itself builds; report and fail closed.
		fmt.Fprintln(os.Stderr, "load:", err)
		return 2
	}
	timeout := 10
	if *tier == "thorough" {
		timeout = 60
	}
	sv := NewSolver(filepath.Join(*verif, ".cache"), filepath.Join(os.TempDir(), fmt.Sprintf("govc-work-%d", os.Getpid())), timeout, seed)
	defer os.RemoveAll(sv.workDir)
	hintsFile := filepath.Join(*verif, "hints.json")
	sv.LoadHints(hintsFile)
	if os.Getenv("GOVC_WRITE_HINTS") != "" {
		defer sv.SaveHints(hintsFile)
	}
	if *tier == "thorough" || os.Getenv("GOVC_NOCACHE") != "" {
		sv.noCache = true
	}

	var all, smokes []*Obligation
	var units []*unitResult
	unitOf := map[string]*unitResult{}
	type staleUnit struct{ name, reason string }
	var stale []staleUnit
	for _, u := range pc.Units {
		ur := &unitResult{Name: u, Kind: "function", Level: "contract"}
		if strings.HasPrefix(u, "lemma:") {
			ur.Kind = "lemma"
		}
		units = append(units, ur)
		unitOf[u] = ur
		if strings.HasPrefix(u, "lean:") {
			ur.Kind = "lean-lemmas"
			sf := g.specFileByPkgName(strings.TrimPrefix(u, "lean:"))
			if sf == nil {
				ur.Status = "stale: no contract file for " + u
				stale = append(stale, staleUnit{u, "no contract file"})
				continue
			}
			ok, names, secs, out := g.CheckLean(sf, *verif, 15*time.Minute)
			for _, n := range names {
				o := &Obligation{Fn: u, Name: "lemma:" + n + "/lean", Kind: "lean", Guard: True, Goal: True, Text: "Lean 4 + Mathlib accepts the generated theorem " + n + " (/verif/lemmas/Generated_<pkg>.lean)", Pos: "lemmas/proofs/" + n + ".lean", Seconds: secs / float64(len(names))}
				if ok {
					o.Result, o.Solver = "unsat", "lean"
				} else {
					o.Result, o.Solver, o.Model = "error", "lean", out
				}
				all = append(all, o)
				ur.Obls++
			}
			if !ok && len(names) == 0 {
				o := &Obligation{Fn: u, Name: u + "/generate", Kind: "lean", Guard: True, Goal: True, Text: "Lean file generation", Result: "error", Solver: "lean", Model: out}
				all = append(all, o)
				ur.Obls++
			}
			continue
		}
		obls, sm, err := g.obligationsFor(u)
		if err != nil {
			ur.Status = "stale: " + err.Error()
			stale = append(stale, staleUnit{u, err.Error()})
			continue
		}
		ur.Obls = len(obls)
		for _, o := range obls {
			o.Fn = u
			if o.Kind == "decreases" {
				ur.Termination = true
			}
		}
		all = append(all, obls...)
		smokes = append(smokes, sm...)
	}
	if len(pc.FramePkgs) > 0 {
		fe, err := NewFrameEngine(*repo)
		if err != nil {
			fmt.Fprintln(os.Stderr, "frame engine:", err)
			return 2
		}
		allow := map[string]bool{}
		for _, a := range pc.AllowSync {
			allow[a] = true
		}
		ro := fe.AutoReadOnly()
		for k, v := range pc.ReadOnly {
			ro[k] = v
		}
		for _, k := range pc.FreshResults {
			frameFreshResults[k] = true
		}
		fobls, fas := fe.FrameObligations(pc.FramePkgs, ro, allow)
		for k := range frameFreshResults {
			found := false
			for _, o := range fobls {
				if o.Name == k+"/frame:result-fresh" {
					found = true
				}
			}
			if !found {
				stale = append(stale, staleUnit{"frame:" + k, "fresh-result function " + k + " not found in the current tree"})
			}
		}
		for _, a := range fas {
			g.noteAssumption(a)
		}
		for _, o := range fobls {
			ur := unitOf[o.Fn]
			if ur == nil {
				ur = &unitResult{Name: o.Fn, Kind: "frame-analysis", Level: "frame"}
				units = append(units, ur)
				unitOf[o.Fn] = ur
			}
			ur.Obls++
		}
		all = append(all, fobls...)
		// every listed read-only function must exist
		seen := map[string]bool{}
		for _, o := range fobls {
			if i := strings.Index(o.Name, "/frame:read-only"); i > 0 {
				seen[o.Name[:i]] = true
			}
		}
		for k := range pc.ReadOnly {
			if !seen[k] {
				stale = append(stale, staleUnit{"frame:" + k, "read-only function " + k + " not found in the current tree"})
			}
		}
	}
	// when a contract no longer applies to the code (stale unit) the bounded stand-ins are all
	// that decides that function: run them with their thorough bounds, whatever the tier
	boundTier := func() string {
		if len(stale) > 0 {
			return "thorough"
		}
		return *tier
	}
	workers := runtime.NumCPU()
	sv.SolveAll(all, workers, nil)
	// A failed no-overflow obligation is not by itself a violation of the property: Go defines
	// signed overflow as wrap-around.  The function is re-verified with exactly those sites
	// modelled as wrapping; whatever the property needs must then hold with the wrapped values.
	var wrapNotes []string
	for round := 0; round < 3; round++ {
		failed := map[string][]int{}
		for _, o := range all {
			if o.Kind == "overflow" && o.Result != "unsat" && !strings.HasPrefix(o.Fn, "lemma:") {
				if i := strings.LastIndex(o.Name, "overflow#"); i >= 0 {
					if n, err := strconv.Atoi(o.Name[i+len("overflow#"):]); err == nil {
						failed[o.Fn] = append(failed[o.Fn], n)
					}
				}
			}
		}
		if len(failed) == 0 {
			break
		}
		var redo []*Obligation
		for fnName, ords := range failed {
			fn := g.FindFunc(fnName)
			if fn == nil {
				continue
			}
			if g.wrapSites == nil {
				g.wrapSites = map[*ssa.Function]map[int]bool{}
			}
			if g.wrapSites[fn] == nil {
				g.wrapSites[fn] = map[int]bool{}
			}
			for _, n := range ords {
				g.wrapSites[fn][n] = true
			}
			obls, sm, err := g.obligationsFor(fnName)
			if err != nil {
				continue
			}
			keep := all[:0:0]
			for _, o := range all {
				if o.Fn != fnName {
					keep = append(keep, o)
				}
			}
			for _, o := range obls {
				o.Fn = fnName
			}
			all = append(keep, obls...)
			ks := smokes[:0:0]
			for _, o := range smokes {
				if !strings.HasPrefix(o.Name, fnName+"/") {
					ks = append(ks, o)
				}
			}
			smokes = append(ks, sm...)
			redo = append(redo, obls...)
			unitOf[fnName].Obls = len(obls)
			sort.Ints(ords)
			note := fmt.Sprintf("%s: no-overflow obligation(s) %v not discharged; those operations are modelled with Go's wrap-around semantics and the function was re-verified", fnName, ords)
			wrapNotes = append(wrapNotes, note)
			fmt.Println("note:", note)
		}
		sv.SolveAll(redo, workers, nil)
	}
	sv.smokeOnly = true
	sv.SolveAll(smokes, workers, nil)
	sv.smokeOnly = false

	violations := 0
	knownHits := 0
	replayDir := filepath.Join(*verif, "replay", *prop)
	os.MkdirAll(replayDir, 0o755)
	var perObl []map[string]interface{}
	discharged := 0
	counted := 0
	solverBy := map[string]int{}
	var samples []interface{}
	racCache := map[string]*RacResult{}
	for _, o := range all {
		ur := unitOf[o.Fn]
		rec := map[string]interface{}{"name": o.Name, "result": o.Result, "solver": o.Solver, "seconds": round3(o.Seconds), "at": o.Pos, "text": o.Text}
		perObl = append(perObl, rec)
		if o.Result == "unsat" {
			discharged++
			counted++
			ur.Discharged++
			solverBy[strings.TrimSuffix(o.Solver, "(cached)")]++
			ur.SolverS += o.Seconds
			continue
		}
		// not discharged
		if kf := matchFinding(kfs, *prop, o.Name); kf != nil {
			fmt.Printf("KNOWN-FINDING: property=%s %s: %s (witness: %s)\n", *prop, o.Name, kf.WhatFails, kf.Witness)
			rec["known_finding"] = kf.WhatFails
			knownHits++
			ur.Obls-- // excluded from the proved counts
			continue
		}
		counted++
		violations++
		// replay: search for a concrete failing input on the real code
		rr := racCache[o.Fn]
		if rr == nil {
			rr = g.RacSearch(*repo, *verif, o.Fn, o, sv, *tier)
			if !rr.Ran || rr.Input == "" {
				// fall back to the property's bounded group harnesses for a concrete failing input
				for _, b := range pc.Bounded {
					br := racCache["bounded:"+b]
					if br == nil {
						br = g.RacSearch(*repo, *verif, b, nil, sv, boundTier())
						racCache["bounded:"+b] = br
					}
					if br.Input != "" {
						rr = br
						break
					}
				}
			}
			racCache[o.Fn] = rr
		}
		rp := filepath.Join(replayDir, sanitize(o.Name)+".json")
		rep := map[string]interface{}{
			"property": *prop, "obligation": o.Name, "at": o.Pos, "clause": o.Text,
			"solver_result": o.Result, "solver_output": o.Model, "failing_input": rr.Input,
			"failing_clause": rr.Clause, "replay_cmd": rr.Cmd, "replay_note": rr.Note,
		}
		data, _ := json.MarshalIndent(rep, "", "  ")
		os.WriteFile(rp, data, 0o644)
		tail := " no-failing-input-found"
		if rr.Input != "" {
			tail = " input=" + rr.Input
		}
		fmt.Printf("obligation not discharged: %s (%s) at %s: %s\n", o.Name, o.Result, o.Pos, o.Text)
		fmt.Printf("VIOLATION property=%s replay=%s obligation=%s%s\n", *prop, rp, o.Name, tail)
	}
	for _, o := range smokes {
		if o.Result == "unsat" {
			violations++
			rp := filepath.Join(replayDir, sanitize(o.Name)+".json")
			rep := map[string]interface{}{"property": *prop, "obligation": o.Name, "at": o.Pos,
				"clause": "vacuity guard: `false` became provable here — a return or loop body is unreachable under the contract (non-termination or contradictory contract)"}
			data, _ := json.MarshalIndent(rep, "", "  ")
			os.WriteFile(rp, data, 0o644)
			fmt.Printf("VIOLATION property=%s replay=%s obligation=%s no-failing-input-found\n", *prop, rp, o.Name)
		}
	}
	// stale units: the contract no longer resolves against the code; fall back
	// to the bounded run-time check of the externally visible contract.
	for _, su := range stale {
		rr := g.RacSearch(*repo, *verif, su.name, nil, sv, boundTier())
		if rr.Input != "" {
			violations++
			rp := filepath.Join(replayDir, sanitize(su.name)+"_stale.json")
			rep := map[string]interface{}{"property": *prop, "unit": su.name, "reason": su.reason, "failing_input": rr.Input, "failing_clause": rr.Clause, "replay_cmd": rr.Cmd}
			data, _ := json.MarshalIndent(rep, "", "  ")
			os.WriteFile(rp, data, 0o644)
			fmt.Printf("VIOLATION property=%s replay=%s unit=%s input=%s\n", *prop, rp, su.name, rr.Input)
		} else if rr.Ran {
			fmt.Printf("PROOF-STALE function=%s reason=%q bounded-fallback=passed (%d cases)\n", su.name, su.reason, rr.Cases)
		} else if groupRan, groupCases := func() (bool, int) {
			// no run-time check of this function alone: the property's bounded group
			// harnesses exercise it; their violations are reported below on their own
			ran, cases := len(pc.Bounded) > 0, 0
			for _, b := range pc.Bounded {
				br := racCache["bounded:"+b]
				if br == nil {
					br = g.RacSearch(*repo, *verif, b, nil, sv, boundTier())
					racCache["bounded:"+b] = br
				}
				if !br.Ran {
					ran = false
				}
				cases += br.Cases
			}
			return ran, cases
		}(); groupRan {
			fmt.Printf("PROOF-STALE function=%s reason=%q bounded-fallback=%s (%d cases; failures, if any, are reported as bounded violations)\n", su.name, su.reason, strings.Join(pc.Bounded, ","), groupCases)
		} else {
			// neither proof nor bounded check possible: cannot decide
			violations++
			rp := filepath.Join(replayDir, sanitize(su.name)+"_stale.json")
			rep := map[string]interface{}{"property": *prop, "unit": su.name, "reason": su.reason, "note": rr.Note}
			data, _ := json.MarshalIndent(rep, "", "  ")
			os.WriteFile(rp, data, 0o644)
			fmt.Printf("contract of %s cannot be checked against the current code: %s\n", su.name, su.reason)
			fmt.Printf("VIOLATION property=%s replay=%s unit=%s no-failing-input-found\n", *prop, rp, su.name)
		}
	}
	// bounded stand-ins
	var bounded []map[string]interface{}
	for _, b := range pc.Bounded {
		rr := racCache["bounded:"+b]
		if rr == nil {
			rr = g.RacSearch(*repo, *verif, b, nil, sv, boundTier())
		}
		entry := map[string]interface{}{"function": b, "cases": rr.Cases, "bound": rr.Bound, "ran": rr.Ran, "note": rr.Note}
		bounded = append(bounded, entry)
		if rr.Input != "" {
			if kf := matchFinding(kfs, *prop, "bounded:"+b+":"+rr.Clause); kf != nil {
				fmt.Printf("KNOWN-FINDING: property=%s bounded:%s %s (witness: %s)\n", *prop, b, kf.WhatFails, kf.Witness)
				continue
			}
			violations++
			rp := filepath.Join(replayDir, sanitize("bounded_"+b)+".json")
			rep := map[string]interface{}{"property": *prop, "unit": b, "kind": "bounded", "failing_input": rr.Input, "failing_clause": rr.Clause, "replay_cmd": rr.Cmd}
			data, _ := json.MarshalIndent(rep, "", "  ")
			os.WriteFile(rp, data, 0o644)
			fmt.Printf("VIOLATION property=%s replay=%s unit=%s(bounded) input=%s\n", *prop, rp, b, rr.Input)
		} else if !rr.Ran {
			fmt.Printf("bounded stand-in for %s did not run: %s\n", b, rr.Note)
		}
	}

	for _, o := range all {
		if len(samples) < 3 && o.Result == "unsat" && o.Solver != "trivial" && (o.Kind == "ensures" || o.Kind == "inv-preserve") {
			q := o.Query()
			if len(q) > 6000 {
				q = q[len(q)-6000:]
			}
			samples = append(samples, map[string]interface{}{"obligation": o.Name, "clause": o.Text, "smtlib_tail": q})
		}
	}
	if len(samples) == 0 {
		for _, o := range all {
			if len(samples) < 2 {
				samples = append(samples, map[string]interface{}{"obligation": o.Name, "clause": o.Text})
			}
		}
	}
	var assumptions []string
	for a := range g.assumptions {
		assumptions = append(assumptions, a)
	}
	sort.Strings(assumptions)
	assumptions = append(assumptions, pc.Assumptions...)
	assumptions = append(assumptions, pc.Meta...)
	assumptions = append(assumptions, wrapNotes...)
	assumptions = append(assumptions,
		"A1: go/ssa (x/tools v0.29.0, naive form) and the translation rules of /verif/govc read Go as the compiler implements it",
		"A2: an `unsat` answer of z3 5.1.0 / z3 4.8.12 / cvc5 1.0 is correct",
		"A5: every slice has at most 2^48 elements and allocation succeeds",
		"integers are mathematical in the VCs; every signed + - * and narrowing conversion carries an overflow obligation, unsigned arithmetic is modelled modulo 2^w")
	var ulist []interface{}
	for _, u := range units {
		ulist = append(ulist, u)
	}
	ev := Evidence{PropertyID: *prop, Tier: *tier, Seed: seed, Level: "proof", Assumptions: assumptions, Violations: violations,
		WallS: round3(time.Since(start).Seconds())}
	ev.Coverage = map[string]interface{}{
		"obligations": counted, "discharged": discharged,
		"checker_cmd":  fmt.Sprintf("/verif/bin/govc check -prop %s -tier %s  (VCs from go/ssa of /repo's working tree, tag verif; solvers raced: z3-new 5.1.0, cvc5 1.0, z3 4.8.12; timeout %ds)", *prop, *tier, timeout),
		"trusted_base": []string{"go/packages + go/ssa (golang.org/x/tools v0.29.0)", "/verif/govc VC generator", "z3 5.1.0, z3 4.8.12, cvc5 1.0", "/verif/contracts/extern.spec (assumed library contracts)", "Go toolchain go1.23.5"},
		"functions_under_contract": ulist, "per_obligation": perObl, "discharged_by": solverBy,
		"solver_seconds": round3(sv.SolverS), "smoke_checks": len(smokes), "known_findings_hit": knownHits,
		"bounded": bounded, "samples": samples, "decides": pc.Decides, "not_decided": pc.NotDecided,
	}
	if pc.Category != "" && pc.Category != "proof" {
		// mostly-bounded properties: the level of the evidence follows the manifest category
		ev.Level = pc.Category
		cases := 0
		var bnames []string
		for _, b := range bounded {
			if c, ok := b["cases"].(int); ok {
				cases += c
			}
			bnames = append(bnames, fmt.Sprint(b["function"]))
		}
		ev.Coverage["explanation"] = fmt.Sprintf("Two parts. (1) Deductive core: %d proof obligations generated from the current source of the functions under contract (functions_under_contract), %d discharged by the solvers in this run (per_obligation). (2) Labelled bounded stand-in(s) %s: %d cases enumerated and compared with a reference in this run (bounds in coverage.bounded). The clauses of the property decided only by (2) are named in the manifest level text; they are bounded, not proved.", counted, discharged, strings.Join(bnames, ", "), cases)
		ev.Coverage["evaluations"] = cases
	}
	os.MkdirAll(filepath.Join(*verif, "evidence"), 0o755)
	data, _ := json.MarshalIndent(ev, "", " ")
	os.WriteFile(filepath.Join(*verif, "evidence", *prop+".json"), data, 0o644)
	fmt.Printf("%s %s: %d units, %d obligations, %d discharged, %d known findings, %d violations, %d smoke checks, solver %.1fs, wall %.1fs\n",
		*prop, *tier, len(units), counted, discharged, knownHits, violations, len(smokes), sv.SolverS, time.Since(start).Seconds())
	if violations > 0 {
		return 1
	}
	if counted == 0 && len(pc.Extra) == 0 {
		fmt.Println("no obligations generated: refusing to report success")
		return 2
	}
	return 0
}

func round3(x float64) float64 { return float64(int(x*1000+0.5)) / 1000 }
