package main

import (
	"flag"
	"fmt"
	"os"
	"path/filepath"
	"runtime"
	"sort"
	"strings"
	"time"
)

func main() {
	if len(os.Args) < 2 {
		fmt.Fprintln(os.Stderr, "usage: govc vc|check|frame ...")
		os.Exit(2)
	}
	switch os.Args[1] {
	case "vc":
		cmdVC(os.Args[2:])
	case "check":
		os.Exit(cmdCheck(os.Args[2:]))
	case "ssa":
		cmdSSA(os.Args[2:])
	case "frame":
		fe, err := NewFrameEngine("/repo")
		if err != nil {
			fmt.Fprintln(os.Stderr, err)
			os.Exit(2)
		}
		obls, as := fe.FrameObligations(os.Args[2:], fe.AutoReadOnly(), nil)
		if os.Getenv("GOVC_LIST_FRESH") != "" {
			for _, k := range frameListFresh {
				fmt.Println("fresh-result:", k)
			}
		}
		bad := 0
		for _, o := range obls {
			if o.Result != "unsat" {
				bad++
				fmt.Printf("%-6s %s  %s\n       %s\n", o.Result, o.Name, o.Pos, o.Model)
			}
		}
		fmt.Printf("%d frame obligations, %d failing\n", len(obls), bad)
		for _, a := range as {
			fmt.Println("assumption:", a)
		}
	case "lean":
		os.Exit(cmdLean(os.Args[2:]))
	default:
		fmt.Fprintln(os.Stderr, "unknown command", os.Args[1])
		os.Exit(2)
	}
}

func cmdSSA(args []string) {
	fs := flag.NewFlagSet("ssa", flag.ExitOnError)
	repo := fs.String("repo", "/repo", "repository")
	fs.Parse(args)
	g, err := LoadRepo(*repo, "")
	if err != nil {
		fmt.Fprintln(os.Stderr, err)
		os.Exit(2)
	}
	for _, n := range fs.Args() {
		fn := g.FindFunc(n)
		if fn == nil {
			fmt.Println("not found:", n)
			continue
		}
		fn.WriteTo(os.Stdout)
	}
}

// cmdVC: developer command — generate and solve the obligations of some functions.
func cmdVC(args []string) {
	fs := flag.NewFlagSet("vc", flag.ExitOnError)
	repo := fs.String("repo", "/repo", "repository")
	verif := fs.String("verif", "/verif", "verif dir")
	timeout := fs.Int("timeout", 10, "solver timeout (s)")
	dump := fs.String("dump", "", "directory to dump queries of failed obligations")
	only := fs.String("only", "", "substring filter on obligation names")
	nocache := fs.Bool("nocache", false, "ignore cache")
	verbose := fs.Bool("v", false, "print every obligation")
	fs.Parse(args)
	g, err := LoadRepo(*repo, filepath.Join(*verif, "contracts", "extern.spec"))
	if err != nil {
		fmt.Fprintln(os.Stderr, err)
		os.Exit(2)
	}
	sv := NewSolver(filepath.Join(*verif, ".cache"), filepath.Join(os.TempDir(), "govc-work"), *timeout, 0)
	sv.noCache = *nocache
	var all, smokes []*Obligation
	for _, n := range fs.Args() {
		obls, sm, err := g.obligationsFor(n)
		smokes = append(smokes, sm...)
		if err != nil {
			fmt.Printf("%s: %v\n", n, err)
			continue
		}
		for _, o := range obls {
			if *only == "" || strings.Contains(o.Name, *only) {
				all = append(all, o)
			}
		}
	}
	sv.SolveAll(all, runtime.NumCPU(), nil)
	sv.smokeOnly = true
	sv.SolveAll(smokes, runtime.NumCPU(), nil)
	sv.smokeOnly = false
	for _, o := range smokes {
		if o.Result == "unsat" {
			fmt.Printf("VACUOUS  %s: false is provable at %s\n", o.Name, o.Pos)
			if *dump != "" {
				os.MkdirAll(*dump, 0o755)
				os.WriteFile(filepath.Join(*dump, sanitize(o.Name)+".smt2"), []byte(o.Query()), 0o644)
			}
		}
	}
	fmt.Printf("%d smoke checks\n", len(smokes))
	bad := 0
	for _, o := range all {
		if o.Result != "unsat" || *verbose {
			fmt.Printf("%-8s %-60s %-10s %6.2fs  %s  [%s]\n", o.Result, o.Name, o.Solver, o.Seconds, o.Pos, o.Text)
		}
		if o.Result != "unsat" {
			bad++
			if *dump != "" {
				os.MkdirAll(*dump, 0o755)
				os.WriteFile(filepath.Join(*dump, sanitize(o.Name)+".smt2"), []byte(o.Query()), 0o644)
			}
		}
	}
	fmt.Printf("%d obligations, %d not discharged, solver time %.1fs\n", len(all), bad, sv.SolverS)
	var as []string
	for a := range g.assumptions {
		as = append(as, a)
	}
	sort.Strings(as)
	for _, a := range as {
		fmt.Println("assumption:", a)
	}
}

// obligationsFor: "pkg.Func", "pkg.(*T).M", or "lemma:pkg:name".
func (g *Gen) obligationsFor(name string) ([]*Obligation, []*Obligation, error) {
	if strings.HasPrefix(name, "lemma:") {
		parts := strings.SplitN(name, ":", 3)
		if len(parts) != 3 {
			return nil, nil, fmt.Errorf("lemma name must be lemma:<pkg>:<name>")
		}
		for path, sf := range g.specFiles {
			if g.pkgs[path].Types.Name() != parts[1] && !strings.HasSuffix(path, "/"+parts[1]) {
				continue
			}
			l, lsf := g.findLemma(sf, parts[2])
			if l == nil {
				continue
			}
			v, err := g.GenLemma(l, lsf, g.pkgs[path].Types)
			if err != nil {
				return nil, nil, err
			}
			return v.obls, nil, nil
		}
		return nil, nil, fmt.Errorf("lemma %s not found", name)
	}
	fn := g.FindFunc(name)
	if fn == nil {
		return nil, nil, fmt.Errorf("function %s not found in the current tree", name)
	}
	spec := g.specFor(fn)
	if spec == nil {
		return nil, nil, fmt.Errorf("no contract for %s", name)
	}
	v, err := g.GenFunc(fn, spec)
	if err != nil {
		return nil, nil, err
	}
	return v.obls, v.smokes, nil
}


// cmdLean: generate and check the Lean lemmas of the given packages (used by setup).
func cmdLean(args []string) int {
	fs := flag.NewFlagSet("lean", flag.ExitOnError)
	repo := fs.String("repo", "/repo", "repository")
	verif := fs.String("verif", "/verif", "verif dir")
	fs.Parse(args)
	g, err := LoadRepo(*repo, filepath.Join(*verif, "contracts", "extern.spec"))
	if err != nil {
		fmt.Fprintln(os.Stderr, err)
		return 2
	}
	rc := 0
	for _, p := range fs.Args() {
		sf := g.specFileByPkgName(p)
		if sf == nil {
			fmt.Println("no contract file for", p)
			rc = 1
			continue
		}
		ok, names, secs, out := g.CheckLean(sf, *verif, 20*time.Minute)
		fmt.Printf("lean %s: ok=%v lemmas=%v %.1fs\n%s\n", p, ok, names, secs, out)
		if !ok {
			rc = 1
		}
	}
	return rc
}
