package main

// Calls: builtins (append, copy, len, cap), contract-based calls of repository
// and library functions, function values.

import (
	"fmt"
	"go/token"
	"go/types"
	"sort"
	"strings"

	"golang.org/x/tools/go/ssa"
)

func (v *FnVC) execCall(in *ssa.Call, st *State) {
	c := in.Call
	if b, ok := c.Value.(*ssa.Builtin); ok {
		v.execBuiltin(in, b, st)
		return
	}
	if c.IsInvoke() {
		v.execInvoke(in, st)
		return
	}
	callee := c.StaticCallee()
	if callee == nil {
		v.execDynamicCall(in, st)
		return
	}
	if strings.HasPrefix(callee.Name(), "ssa:") || callee.String() == "ssa:deferstack" {
		v.regs[in] = Val{T: IntLit(0), Typ: in.Type()}
		return
	}
	_, spec := v.g.calleeSpec(v, c)
	if spec == nil {
		unsupported("call of %s which has no contract (at %s)", callee.String(), v.posOf(in.Pos()))
	}
	var args []Val
	type copyBack struct {
		addr *Addr
		cell *Addr
	}
	var backs []copyBack
	for _, a := range c.Args {
		av := v.value(a, st)
		if av.T == nil && av.Addr != nil && (av.Addr.Kind == "elem" || av.Addr.Kind == "field") {
			// pointer to a slice element / struct field passed to a method (e.g.
			// g.Neighbourhoods[i].Add(j)): copy-in/copy-out through a fresh cell.
			// Sound because the callee contracts here neither retain the pointer
			// nor reach the element by another path.
			et := av.Addr.Typ
			if sortOf(et) == "STRUCT" {
				unsupported("pointer to struct element passed to %s", callee.Name())
			}
			cur := v.loadAddr(st, av.Addr)
			ref := v.newRef(st, "argcell")
			hn := cellHeap(et)
			h := v.heap(st, hn, ArrSort(sortOf(et)))
			st.heaps[hn] = v.define(hn, Store(h, ref, cur.T))
			cell := &Addr{Kind: "cell", Heap: hn, Ref: ref, Typ: et}
			backs = append(backs, copyBack{av.Addr, cell})
			av = Val{T: ref, Typ: a.Type()}
		}
		args = append(args, av)
	}
	v.applyContract(in, callee, spec, args, st)
	for _, b := range backs {
		nv := v.loadAddr(st, b.cell)
		v.assume(v.curGuard, v.typeInv(nv.T, nv.Typ, st), "type")
		v.storeAddr(st, b.addr, nv, in.Pos())
	}
}

func (v *FnVC) execBuiltin(in *ssa.Call, b *ssa.Builtin, st *State) {
	args := in.Call.Args
	switch b.Name() {
	case "len":
		x := v.value(args[0], st)
		if x.T == nil || x.T.Sort != SSlice {
			unsupported("len of %s", args[0].Type())
		}
		v.regs[in] = Val{T: SLen(x.T), Typ: in.Type()}
	case "cap":
		x := v.value(args[0], st)
		v.regs[in] = Val{T: SCap(x.T), Typ: in.Type()}
	case "append":
		v.execAppend(in, st)
	case "copy":
		v.execCopy(in, st)
	case "ssa:wrapnilchk":
		v.regs[in] = v.value(args[0], st)
	case "ssa:deferstack":
		v.regs[in] = Val{T: IntLit(0), Typ: in.Type()}
	case "min", "max":
		x := v.value(args[0], st).T
		for _, a := range args[1:] {
			y := v.value(a, st).T
			if b.Name() == "min" {
				x = Ite(Le(x, y), x, y)
			} else {
				x = Ite(Le(x, y), y, x)
			}
		}
		v.regs[in] = Val{T: x, Typ: in.Type()}
	default:
		unsupported("builtin %s", b.Name())
	}
}

// varargsArray recognises `slice (new [N]T)[:]` and returns the array alloc.
func varargsArray(x ssa.Value) (*ssa.Alloc, int64, bool) {
	s, ok := x.(*ssa.Slice)
	if !ok || s.Low != nil || s.High != nil {
		return nil, 0, false
	}
	a, ok := s.X.(*ssa.Alloc)
	if !ok {
		return nil, 0, false
	}
	arr, ok := a.Type().(*types.Pointer).Elem().Underlying().(*types.Array)
	if !ok {
		return nil, 0, false
	}
	return a, arr.Len(), true
}

func (v *FnVC) execAppend(in *ssa.Call, st *State) {
	s := v.value(in.Call.Args[0], st)
	t := v.value(in.Call.Args[1], st)
	et := elemTypeOf(in.Call.Args[0].Type())
	es := sortOf(et)
	h, hname := v.sliceHeapTerm(st, et)
	ls, lt := SLen(s.T), SLen(t.T)
	n := v.define("applen", Add(ls, lt))
	inPlace := v.define("inplace", Le(n, SCap(s.T)))
	srcArr := v.readArray(st, et, SRef(t.T))
	dstArr := v.readArray(st, et, SRef(s.T))
	off := SOff(s.T)
	base := Add(off, ls)
	// One array term describes the contents of the result in both cases (in
	// place / reallocated). A reallocated array keeps the slice's offset:
	// offsets are unobservable in Go, so old and new contents are related at the
	// same absolute indices.
	resArr := v.fresh("app", ArrSort(es))
	freshCounter++
	K := Var(fmt.Sprintf("ap?%d", freshCounter), SInt)
	v.assume(v.curGuard, Forall([]*Term{K}, Implies(And(Le(off, K), Lt(K, base)), Eq(Select(resArr, K), Select(dstArr, K))),
		[]*Term{Select(resArr, K)}, []*Term{Select(dstArr, K)}), "append-prefix")
	_, cnt, isVar := varargsArray(in.Call.Args[1])
	if isVar && cnt <= 4 {
		for k := int64(0); k < cnt; k++ {
			v.assume(v.curGuard, Eq(Select(resArr, AddC(base, k)), Select(srcArr, AddC(SOff(t.T), k))), "append-elem")
		}
	} else {
		freshCounter++
		K2 := Var(fmt.Sprintf("ap?%d", freshCounter), SInt)
		v.assume(v.curGuard, Forall([]*Term{K2}, Implies(And(Le(base, K2), Lt(K2, Add(base, lt))),
			Eq(Select(resArr, K2), Select(srcArr, Add(Sub(K2, base), SOff(t.T))))), []*Term{Select(resArr, K2)}), "append-new")
		freshCounter++
		J := Var(fmt.Sprintf("ap?%d", freshCounter), SInt)
		v.assume(v.curGuard, Forall([]*Term{J}, Implies(And(Le(SOff(t.T), J), Lt(J, Add(SOff(t.T), lt))),
			Eq(Select(resArr, Add(Sub(J, SOff(t.T)), base)), Select(srcArr, J))), []*Term{Select(srcArr, J)}), "append-new-src")
	}
	// in place: everything outside the appended window keeps its value
	freshCounter++
	K3 := Var(fmt.Sprintf("ap?%d", freshCounter), SInt)
	v.assume(v.curGuard, Implies(inPlace, Forall([]*Term{K3}, Implies(Or(Lt(K3, base), Ge(K3, Add(base, lt))), Eq(Select(resArr, K3), Select(dstArr, K3))),
		[]*Term{Select(resArr, K3)})), "append-inplace-rest")
	v.loopFrameCheck(hname, SRef(s.T), Or(Not(inPlace), Eq(lt, IntLit(0))), in.Pos())
	newRef := st.alloc
	newCap := v.fresh("appcap", SInt)
	v.assume(v.curGuard, And(Ge(newCap, n), Le(Add(off, newCap), BigLit(maxLenBig))), "append-cap")
	if !v.modAll {
		alts := []*Term{Not(inPlace), Eq(lt, IntLit(0)), Ge(SRef(s.T), v.entry.alloc)}
		for _, m := range v.mods {
			if m.heap == hname {
				alts = append(alts, Eq(SRef(s.T), m.ref))
			}
		}
		v.oblige("frame", fmt.Sprintf("store-frame#%d", v.ord("frame")), v.curGuard, Or(alts...), v.posOf(in.Pos()), "append in place writes memory allocated by this call or listed in modifies")
	}
	resRef := v.define("appref", Ite(inPlace, SRef(s.T), newRef))
	resCap := v.define("appcapv", Ite(inPlace, SCap(s.T), newCap))
	st.heaps[hname] = v.define(hname, Store(h, resRef, resArr))
	st.alloc = v.define("alloc", Ite(inPlace, st.alloc, AddC(st.alloc, 1)))
	v.regs[in] = Val{T: MkSlice(resRef, off, n, resCap), Typ: in.Type()}
}

func (v *FnVC) execCopy(in *ssa.Call, st *State) {
	d := v.value(in.Call.Args[0], st)
	s := v.value(in.Call.Args[1], st)
	et := elemTypeOf(in.Call.Args[0].Type())
	es := sortOf(et)
	h, hname := v.sliceHeapTerm(st, et)
	n := v.define("copyn", Ite(Le(SLen(d.T), SLen(s.T)), SLen(d.T), SLen(s.T)))
	srcArr := v.readArray(st, et, SRef(s.T))
	dstArr := v.readArray(st, et, SRef(d.T))
	nArr := v.fresh("copy", ArrSort(es))
	freshCounter++
	K := Var(fmt.Sprintf("cp?%d", freshCounter), SInt)
	v.assume(v.curGuard, Forall([]*Term{K}, Ite(And(Le(SOff(d.T), K), Lt(K, Add(SOff(d.T), n))),
		Eq(Select(nArr, K), Select(srcArr, Add(Sub(K, SOff(d.T)), SOff(s.T)))),
		Eq(Select(nArr, K), Select(dstArr, K))), []*Term{Select(nArr, K)}, []*Term{Select(dstArr, K)}), "copy")
	freshCounter++
	J := Var(fmt.Sprintf("cp?%d", freshCounter), SInt)
	v.assume(v.curGuard, Forall([]*Term{J}, Implies(And(Le(SOff(s.T), J), Lt(J, Add(SOff(s.T), n))),
		Eq(Select(nArr, Add(Sub(J, SOff(s.T)), SOff(d.T))), Select(srcArr, J))), []*Term{Select(srcArr, J)}), "copy-src")
	v.loopFrameCheck(hname, SRef(d.T), Eq(n, IntLit(0)), in.Pos())
	if !v.modAll {
		alts := []*Term{Eq(n, IntLit(0)), Ge(SRef(d.T), v.entry.alloc)}
		for _, m := range v.mods {
			if m.heap == hname {
				alts = append(alts, Eq(SRef(d.T), m.ref))
			}
		}
		v.oblige("frame", fmt.Sprintf("store-frame#%d", v.ord("frame")), v.curGuard, Or(alts...), v.posOf(in.Pos()), "copy writes memory allocated by this call or listed in modifies")
	}
	st.heaps[hname] = v.define(hname, Store(h, SRef(d.T), nArr))
	v.regs[in] = Val{T: n, Typ: in.Type()}
}

// ---------- contract application ----------

func (v *FnVC) calleeEnv(callee *ssa.Function, spec *FuncSpec, args []Val, st *State, sf *SpecFile) *Env {
	env := &Env{v: v, g: v.g, sf: sf, vars: map[string]Val{}, st: st}
	if callee != nil && callee.Pkg != nil {
		env.pkg = callee.Pkg.Pkg
	} else {
		env.pkg = v.fn.Pkg.Pkg
	}
	if spec.Extern && len(spec.Params) > 0 {
		if len(spec.Params) != len(args) {
			specErr("extern %s: %d parameters declared, call has %d arguments", spec.Key, len(spec.Params), len(args))
		}
		for i, p := range spec.Params {
			a := args[i]
			env.vars[p.Name] = a
		}
	} else if callee != nil {
		for i, p := range callee.Params {
			if i < len(args) {
				env.vars[p.Name()] = args[i]
			}
		}
	}
	env.old = env
	return env
}

func (v *FnVC) applyContract(in *ssa.Call, callee *ssa.Function, spec *FuncSpec, args []Val, st *State) {
	sf := v.g.specFileOf(spec)
	v.callOrd[spec.Key]++
	cn := fmt.Sprintf("call#%d:%s", v.ord("call"), spec.Key)
	pre := st.clone()
	envPre := v.calleeEnv(callee, spec, args, pre, sf)
	envPre.freshBase = pre.alloc
	// ghost variables of this function are visible to (extern) callee contracts
	if len(v.ghostVars) > 0 {
		v.bindGhost(envPre, pre)
	}
	_, vvals := callConstOperands(in.Call)
	for k, x := range vvals {
		xv := v.value(x, st)
		if xv.T != nil {
			envPre.vars[fmt.Sprintf("vararg%d", k)] = xv
		}
	}
	for i, c := range spec.Requires {
		nm := fmt.Sprintf("%s.requires#%d", cn, i+1)
		if c.Name != "" {
			nm = fmt.Sprintf("%s.requires:%s", cn, c.Name)
		}
		v.oblige("call-pre", nm, v.curGuard, v.evalClause(envPre, c), v.posOf(in.Pos()), c.Text)
	}
	// the callee may panic only when the caller is allowed to
	if len(spec.Panics) > 0 {
		var may []*Term
		for _, c := range spec.Panics {
			may = append(may, v.evalClause(envPre, c))
		}
		var allowed []*Term
		for _, c := range v.spec.Panics {
			allowed = append(allowed, v.evalClause(v.entryEnv, c))
		}
		v.oblige("panic", cn+".may-panic", v.curGuard, Implies(Or(may...), Or(allowed...)), v.posOf(in.Pos()), "the callee panics only under a condition under which this function is allowed to panic")
	}
	// termination of recursion
	if callee == v.fn && v.spec.Decreases != nil {
		var now []*Term
		for _, e := range v.spec.Decreases.Es {
			now = append(now, envPre.int(e))
		}
		var entry []*Term
		for _, e := range v.spec.Decreases.Es {
			entry = append(entry, v.entryEnv.int(e))
		}
		var lex *Term = False
		for i := len(now) - 1; i >= 0; i-- {
			lex = Or(And(Lt(now[i], entry[i]), Ge(entry[i], IntLit(0))), And(Eq(now[i], entry[i]), lex))
		}
		v.oblige("decreases", cn+".decreases", v.curGuard, lex, v.posOf(in.Pos()), "recursive call decreases the variant")
	}
	// effects
	var mods []modTarget
	for _, m := range spec.Modifies {
		mods = append(mods, v.evalMod(envPre, m)...)
	}
	retRefs := false
	var resTypes []types.Type
	if callee != nil {
		res := callee.Signature.Results()
		for i := 0; i < res.Len(); i++ {
			resTypes = append(resTypes, res.At(i).Type())
			if hasRefs(res.At(i).Type()) {
				retRefs = true
			}
		}
	}
	// the caller's own frame: what the callee may write must be writable here
	for _, m := range mods {
		v.frameCheckCall(m, in.Pos(), cn)
	}
	if spec.ModAll {
		if !v.modAll {
			unsupported("call of %s (modifies anything) from a function with a frame", spec.Key)
		}
	}
	if len(mods) > 0 || retRefs || spec.ModAll || spec.Opts["allocates"] == "true" {
		newAlloc := v.fresh("alloc_after_"+sanitize(spec.Key), SInt)
		v.assume(v.curGuard, Ge(newAlloc, pre.alloc), "alloc-monotone")
		st.alloc = newAlloc
		// heaps: those written, and those in which memory freshly allocated by
		// the callee can become reachable for the caller (through results or
		// through references stored into modified memory). Everything else —
		// including ghost heaps not named in modifies — keeps its term.
		touched := map[string]bool{}
		reach := func(t types.Type) {
			if t == nil {
				return
			}
			for _, h := range refHeaps(t) {
				if _, ok := v.heapSorts[h.name]; !ok {
					v.heapSorts[h.name] = h.sort
				}
				touched[h.name] = true
			}
		}
		for _, m := range mods {
			if m.kind == "struct" {
				for h := range v.heapSorts {
					if strings.HasPrefix(h, m.heap) {
						touched[h] = true
					}
				}
				reach(m.elem)
			} else {
				touched[m.heap] = true
				reach(m.elem)
			}
		}
		if spec.ModAll {
			for h := range v.heapSorts {
				touched[h] = true
			}
		}
		for _, rt := range resTypes {
			reach(rt)
		}
		var hs []string
		for h := range touched {
			hs = append(hs, h)
		}
		sort.Strings(hs)
		for _, hn := range hs {
			srt := v.heapSorts[hn]
			oldH := v.heap(pre, hn, srt)
			nh := v.fresh(hn+"_after_"+sanitize(spec.Key), srt)
			st.heaps[hn] = nh
			if spec.ModAll {
				continue
			}
			freshCounter++
			r := Var(fmt.Sprintf("cf?%d", freshCounter), SInt)
			conds := []*Term{Lt(r, pre.alloc)}
			for _, m := range mods {
				if m.heap == hn || (m.kind == "struct" && strings.HasPrefix(hn, m.heap)) {
					conds = append(conds, Ne(r, m.ref))
				}
			}
			v.assume(v.curGuard, Forall([]*Term{r}, Implies(And(conds...), Eq(Select(nh, r), Select(oldH, r))), []*Term{Select(nh, r)}), "call-frame")
		}
	}
	if len(mods) > 0 || retRefs || spec.ModAll || spec.Opts["allocates"] == "true" {
		v.assumeClosure(st, v.curGuard, nil)
	}
	// results
	var results []Val
	for i, rt := range resTypes {
		s := sortOf(rt)
		if s == "STRUCT" || s == "TUPLE" {
			unsupported("call result of type %s", rt)
		}
		r := v.freshVal(fmt.Sprintf("res%d_%s", i, sanitize(spec.Key)), s)
		v.assume(v.curGuard, v.typeInv(r, rt, st), "type")
		results = append(results, Val{T: r, Typ: rt})
	}
	for _, gname := range spec.ModGhost {
		typ, ok := v.ghostVars[gname]
		if !ok {
			specErr("callee %s modifies ghost %s which this function does not declare", spec.Key, gname)
		}
		if v.ghostSeq[gname] {
			st.vars["ghost."+gname] = v.fresh("ghost_"+gname, ArrSort(SInt))
		} else {
			st.vars["ghost."+gname] = v.fresh("ghost_"+gname, sortOf(typ))
		}
	}
	envPost := v.calleeEnv(callee, spec, args, st, sf)
	envPost.old = envPre
	envPost.freshBase = pre.alloc
	if len(v.ghostVars) > 0 {
		v.bindGhost(envPost, st)
	}
	for k, x := range vvals {
		xv := v.value(x, st)
		if xv.T != nil {
			envPost.vars[fmt.Sprintf("vararg%d", k)] = xv
		}
	}
	names := calleeResultNames(callee, spec)
	for i, r := range results {
		if i < len(names) {
			envPost.vars[names[i]] = r
		}
		if len(results) == 1 {
			envPost.vars["result"] = r
		}
	}
	for _, c := range spec.Ensures {
		v.assume(v.curGuard, v.evalClause(envPost, c), "callee-ensures:"+spec.Key)
	}
	if spec.Extern || v.g.isAssumed(spec) {
		v.g.noteAssumption("assumed contract of " + spec.Key)
	}
	switch len(results) {
	case 0:
		v.regs[in] = Val{Typ: in.Type()}
	case 1:
		v.regs[in] = results[0]
	default:
		v.regs[in] = Val{Typ: in.Type(), Tuple: results}
	}
}

func calleeResultNames(callee *ssa.Function, spec *FuncSpec) []string {
	var names []string
	if spec.Extern && len(spec.Results) > 0 {
		for _, r := range spec.Results {
			names = append(names, r.Name)
		}
		return names
	}
	if callee == nil {
		return nil
	}
	res := callee.Signature.Results()
	for i := 0; i < res.Len(); i++ {
		n := res.At(i).Name()
		if n == "" || n == "_" {
			if res.Len() == 1 {
				n = "result"
			} else {
				n = fmt.Sprintf("result%d", i)
			}
		}
		names = append(names, n)
	}
	return names
}

func hasRefs(t types.Type) bool {
	switch u := t.Underlying().(type) {
	case *types.Slice, *types.Pointer, *types.Interface, *types.Signature, *types.Map, *types.Chan:
		return true
	case *types.Basic:
		return u.Kind() == types.String
	}
	return false
}

type heapDesc struct{ name, sort string }

func safeSort(t types.Type) (s string) {
	defer func() {
		if recover() != nil {
			s = "STRUCT"
		}
	}()
	return sortOf(t)
}

func refHeaps(t types.Type) []heapDesc {
	var out []heapDesc
	seen := map[string]bool{}
	var rec func(t types.Type, depth int)
	rec = func(t types.Type, depth int) {
		if depth > 4 {
			return
		}
		if isString(t) {
			n := sliceHeap(types.Typ[types.Uint8])
			if !seen[n] {
				seen[n] = true
				out = append(out, heapDesc{n, HeapSort(SInt)})
			}
			return
		}
		switch u := t.Underlying().(type) {
		case *types.Slice:
			es := safeSort(u.Elem())
			if es == "STRUCT" || es == "TUPLE" {
				return
			}
			n := sliceHeap(u.Elem())
			if !seen[n] {
				seen[n] = true
				out = append(out, heapDesc{n, HeapSort(es)})
			}
			rec(u.Elem(), depth+1)
		case *types.Pointer:
			if s, ok := u.Elem().Underlying().(*types.Struct); ok {
				for i := 0; i < s.NumFields(); i++ {
					f := s.Field(i)
					fs := safeSort(f.Type())
					if fs == "STRUCT" || fs == "TUPLE" {
						continue
					}
					n := fieldHeap(u.Elem(), f.Name())
					if !seen[n] {
						seen[n] = true
						out = append(out, heapDesc{n, ArrSort(fs)})
						rec(f.Type(), depth+1)
					}
				}
				return
			}
			es := safeSort(u.Elem())
			if es == "STRUCT" || es == "TUPLE" {
				return
			}
			n := cellHeap(u.Elem())
			if !seen[n] {
				seen[n] = true
				out = append(out, heapDesc{n, ArrSort(es)})
			}
			rec(u.Elem(), depth+1)
		}
	}
	rec(t, 0)
	return out
}

// evalMod turns a modifies expression into heap targets.
func (v *FnVC) evalMod(env *Env, m *Expr) []modTarget {
	val := env.eval(m)
	if val.GHeap != "" {
		return []modTarget{{kind: "array", heap: val.GHeap, ref: SRef(val.T), expr: m.String()}}
	}
	if m.Kind == "call" && env.ghostDecl(m.Name) != nil && env.ghostDecl(m.Name).Scalar {
		a := env.eval(m.Args[0])
		return []modTarget{{kind: "cell", heap: "HG_" + m.Name, ref: SRef(a.T), expr: m.String()}}
	}
	switch u := val.Typ.Underlying().(type) {
	case *types.Slice:
		return []modTarget{{kind: "array", heap: sliceHeap(u.Elem()), ref: SRef(val.T), expr: m.String(), elem: u.Elem()}}
	case *types.Pointer:
		if _, ok := u.Elem().Underlying().(*types.Struct); ok {
			return []modTarget{{kind: "struct", heap: "HF_" + structName(u.Elem()) + "_", ref: val.T, expr: m.String(), elem: val.Typ}}
		}
		return []modTarget{{kind: "cell", heap: cellHeap(u.Elem()), ref: val.T, expr: m.String(), elem: u.Elem()}}
	}
	specErr("modifies target %s has type %v (need slice or pointer)", m, val.Typ)
	return nil
}

func (v *FnVC) frameCheckCall(m modTarget, pos token.Pos, cn string) {
	if v.modAll {
		return
	}
	alts := []*Term{Ge(m.ref, v.entry.alloc)}
	if m.kind == "array" {
		alts = append(alts, Eq(m.ref, IntLit(0)))
	}
	for _, own := range v.mods {
		if own.heap == m.heap {
			alts = append(alts, Eq(m.ref, own.ref))
		}
	}
	v.oblige("frame", fmt.Sprintf("%s.frame#%d", cn, v.ord("cframe")), v.curGuard, Or(alts...), v.posOf(pos), "callee may modify "+m.expr+": must be fresh or in this function's modifies")
}

// ---------- function values and interface calls ----------

// A function value is an uninterpreted pure function of its integer
// arguments (assumption A4); slice arguments are passed by identity+contents.
func (v *FnVC) execDynamicCall(in *ssa.Call, st *State) {
	fv := v.value(in.Call.Value, st)
	sig := in.Call.Signature()
	if sig.Results().Len() != 1 {
		unsupported("call of function value with %d results at %s", sig.Results().Len(), v.posOf(in.Pos()))
	}
	rt := sig.Results().At(0).Type()
	rs := sortOf(rt)
	if rs != SInt && rs != SBool {
		unsupported("function value returning %s", rt)
	}
	name := "fv"
	if p, ok := in.Call.Value.(*ssa.UnOp); ok {
		if a, ok := p.X.(*ssa.Alloc); ok {
			name = a.Comment
		}
	}
	if p, ok := in.Call.Value.(*ssa.Parameter); ok {
		name = p.Name()
	}
	var argT []*Term
	var argS []string
	argT = append(argT, fv.T)
	argS = append(argS, SInt)
	var pvals []Val
	for _, a := range in.Call.Args {
		av := v.value(a, st)
		pvals = append(pvals, av)
		switch av.T.Sort {
		case SInt, SBool:
			argT = append(argT, av.T)
			argS = append(argS, av.T.Sort)
		case SSlice:
			// contents and length
			et := elemTypeOf(a.Type())
			h, _ := v.sliceHeapTerm(st, et)
			argT = append(argT, Select(h, SRef(av.T)), SOff(av.T), SLen(av.T))
			argS = append(argS, ArrSort(sortOf(et)), SInt, SInt)
		default:
			unsupported("function value argument of sort %s", av.T.Sort)
		}
	}
	fname := fmt.Sprintf("callfv_%d_%s", len(argS), sanitize(strings.Join(argS, "_")+"_"+rs))
	v.g.declareFun(v, fname, argS, rs)
	r := App(fname, rs, argT...)
	// callsite preconditions from the contract: "callsite <name> requires ..."
	for _, a := range v.spec.Asserts {
		if a.At == "callsite "+name {
			env := v.entryEnv.child()
			env.st = st
			for i, pv := range pvals {
				env.vars[fmt.Sprintf("arg%d", i)] = pv
			}
			v.oblige("callsite", fmt.Sprintf("callsite:%s#%d", name, v.ord("callsite")), v.curGuard, v.evalClause(env, a.C), v.posOf(in.Pos()), a.C.Text)
		}
	}
	res := v.define("fvres", r)
	v.assume(v.curGuard, v.typeInv(res, rt, st), "type")
	v.g.noteAssumption("A4: function value '" + name + "' is a pure, deterministic function of its arguments and writes no tracked memory")
	v.regs[in] = Val{T: res, Typ: rt}
}

func (v *FnVC) execInvoke(in *ssa.Call, st *State) {
	c := in.Call
	recvT := c.Value.Type()
	key := typeKeyName(recvT) + "." + c.Method.Name()
	spec := v.g.lookupSpecByKey(v, key)
	if spec == nil {
		unsupported("interface method call %s without contract at %s", key, v.posOf(in.Pos()))
	}
	recv := v.value(c.Value, st)
	args := []Val{recv}
	for _, a := range c.Args {
		args = append(args, v.value(a, st))
	}
	v.applyInvoke(in, spec, args, st)
}

func typeKeyName(t types.Type) string {
	if n, ok := t.(*types.Named); ok {
		if n.Obj().Pkg() != nil {
			return n.Obj().Pkg().Name() + "." + n.Obj().Name()
		}
		return n.Obj().Name()
	}
	return t.String()
}

func (v *FnVC) applyInvoke(in *ssa.Call, spec *FuncSpec, args []Val, st *State) {
	// interface contracts are externs with declared parameter lists; the first
	// parameter is the receiver.
	sig := in.Call.Signature()
	sf := v.g.specFileOf(spec)
	cn := fmt.Sprintf("call#%d:%s", v.ord("call"), spec.Key)
	pre := st.clone()
	envPre := v.calleeEnv(nil, spec, args, pre, sf)
	envPre.freshBase = pre.alloc
	for i, c := range spec.Requires {
		v.oblige("call-pre", fmt.Sprintf("%s.requires#%d", cn, i+1), v.curGuard, v.evalClause(envPre, c), v.posOf(in.Pos()), c.Text)
	}
	var mods []modTarget
	for _, m := range spec.Modifies {
		mods = append(mods, v.evalMod(envPre, m)...)
	}
	for _, m := range mods {
		v.frameCheckCall(m, in.Pos(), cn)
	}
	var resTypes []types.Type
	retRefs := false
	for i := 0; i < sig.Results().Len(); i++ {
		resTypes = append(resTypes, sig.Results().At(i).Type())
		if hasRefs(sig.Results().At(i).Type()) {
			retRefs = true
		}
	}
	if len(mods) > 0 || retRefs || spec.ModAll {
		newAlloc := v.fresh("alloc_after_"+sanitize(spec.Key), SInt)
		v.assume(v.curGuard, Ge(newAlloc, pre.alloc), "alloc-monotone")
		st.alloc = newAlloc
		for _, rt := range resTypes {
			for _, h := range refHeaps(rt) {
				if _, ok := v.heapSorts[h.name]; !ok {
					v.heapSorts[h.name] = h.sort
				}
			}
		}
		var hs []string
		for h := range v.heapSorts {
			hs = append(hs, h)
		}
		sort.Strings(hs)
		for _, hn := range hs {
			srt := v.heapSorts[hn]
			oldH := v.heap(pre, hn, srt)
			nh := v.fresh(hn+"_after_"+sanitize(spec.Key), srt)
			st.heaps[hn] = nh
			if spec.ModAll {
				continue
			}
			freshCounter++
			r := Var(fmt.Sprintf("cf?%d", freshCounter), SInt)
			conds := []*Term{Lt(r, pre.alloc)}
			for _, m := range mods {
				if m.heap == hn || (m.kind == "struct" && strings.HasPrefix(hn, m.heap)) {
					conds = append(conds, Ne(r, m.ref))
				}
			}
			v.assume(v.curGuard, Forall([]*Term{r}, Implies(And(conds...), Eq(Select(nh, r), Select(oldH, r))), []*Term{Select(nh, r)}), "call-frame")
		}
	}
	var results []Val
	for i, rt := range resTypes {
		r := v.freshVal(fmt.Sprintf("res%d_%s", i, sanitize(spec.Key)), sortOf(rt))
		v.assume(v.curGuard, v.typeInv(r, rt, st), "type")
		results = append(results, Val{T: r, Typ: rt})
	}
	envPost := v.calleeEnv(nil, spec, args, st, sf)
	envPost.old = envPre
	envPost.freshBase = pre.alloc
	names := calleeResultNames(nil, spec)
	for i, r := range results {
		if i < len(names) {
			envPost.vars[names[i]] = r
		}
		if len(results) == 1 {
			envPost.vars["result"] = r
		}
	}
	for _, c := range spec.Ensures {
		v.assume(v.curGuard, v.evalClause(envPost, c), "callee-ensures:"+spec.Key)
	}
	v.g.noteAssumption("interface contract of " + spec.Key + " (implementations proved separately where listed)")
	switch len(results) {
	case 0:
		v.regs[in] = Val{Typ: in.Type()}
	case 1:
		v.regs[in] = results[0]
	default:
		v.regs[in] = Val{Typ: in.Type(), Tuple: results}
	}
}
