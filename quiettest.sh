#!/bin/sh
# Must-stay-quiet corpus: applies every stored behaviour-preserving change (benign/<id>-<k>/patch.diff)
# to /repo, runs the property's quick check and expects exit 0; reverts afterwards.  Changes listed in
# benign/EXPECTED_ALARMS (rewrites whose proof needs a new argument) are reported but not counted.
cd /verif || exit 2
if [ -n "$(git -C /repo status --porcelain --untracked-files=no)" ]; then echo "repo dirty"; exit 2; fi
sel="$*"; alarms=0; total=0
for d in benign/*/; do
  d=${d%/}
  prop=$(python3 -c "import json;print(json.load(open('$d/meta.json'))['property'])")
  if [ -n "$sel" ] && ! echo " $sel " | grep -q " $prop "; then continue; fi
  git -C /repo apply "$PWD/$d/patch.diff" 2>/dev/null || { echo "$d: patch does not apply (tree has moved on)"; continue; }
  ./check "$prop" quick > /tmp/quiettest_out.txt 2>&1; rc=$?
  git -C /repo checkout -- .
  total=$((total+1))
  if [ $rc -eq 0 ]; then
    echo "$d: quiet $(grep -c '^PROOF-STALE' /tmp/quiettest_out.txt | sed 's/^0$//;s/^[1-9].*/(proof stale, bounded fallback passed)/')"
  elif grep -qx "${d#benign/}" benign/EXPECTED_ALARMS 2>/dev/null; then
    echo "$d: alarm (expected, see DESIGN.md): $(grep -m1 '^VIOLATION' /tmp/quiettest_out.txt | cut -c1-160)"
  else
    echo "$d: FALSE ALARM: $(grep -m1 '^VIOLATION' /tmp/quiettest_out.txt | cut -c1-160)"; alarms=$((alarms+1))
  fi
done
git checkout -q -- evidence 2>/dev/null
echo "quiettest: $total behaviour-preserving changes, $alarms unexpected alarms"
[ $alarms -eq 0 ]
