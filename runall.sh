#!/bin/sh
# runs every claimed check (quick) on the current tree; used before committing evidence
cd /verif
for p in $(python3 -c "import json;print(' '.join(c['property_id'] for c in json.load(open('MANIFEST.json'))['checks']))"); do
  ./check $p ${1:-quick} > /tmp/runall_$p.txt 2>&1; rc=$?
  echo "$p exit=$rc $(tail -1 /tmp/runall_$p.txt)"
  grep -E "^VIOLATION|^KNOWN-FINDING|^PROOF-STALE" /tmp/runall_$p.txt | cut -c1-200
done
