-- auxiliary ground facts used by the proof scripts (not trusted: checked by Lean)
theorem c6432 : Nat.choose 64 32 = 1832624140942590534 := by decide
theorem c6633 : Nat.choose 66 33 = 7219428434016265740 := by decide
