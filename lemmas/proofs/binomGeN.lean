by
  induction n generalizing k with
  | zero => omega
  | succ n ih =>
    obtain ⟨j, rfl⟩ : ∃ j, k = j + 1 := ⟨k - 1, by omega⟩
    rw [Nat.choose_succ_succ']
    by_cases hj : j + 1 < n
    · have t := ih (j + 1) (by omega) hj
      have p := Nat.choose_pos (show j ≤ n by omega)
      omega
    · have hjn : n = j + 1 := by omega
      subst hjn
      have a : Nat.choose (j + 1) j = j + 1 := Nat.choose_succ_self_right j
      have b : Nat.choose (j + 1) (j + 1) = 1 := Nat.choose_self (j + 1)
      omega
