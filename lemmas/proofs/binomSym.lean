Nat.choose_symm_of_eq_add (Nat.add_comm n k)
