Nat.choose_self n
