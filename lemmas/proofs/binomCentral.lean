by
  obtain ⟨d, rfl⟩ := Nat.exists_eq_add_of_le (show 32 ≤ k by omega)
  have a : Nat.choose 64 32 ≤ Nat.choose (64 + d) (32 + d) := binomDiag 64 32 d (by omega)
  have b : Nat.choose (64 + d) (32 + d) ≤ Nat.choose n (32 + d) := Nat.choose_le_choose _ (by omega)
  rw [c6432] at a
  exact le_trans a b
