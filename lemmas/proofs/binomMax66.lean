by
  calc Nat.choose n k ≤ Nat.choose 66 k := Nat.choose_le_choose k (by omega)
    _ ≤ Nat.choose 66 (66 / 2) := Nat.choose_le_middle k 66
    _ = 7219428434016265740 := by rw [show 66 / 2 = 33 by norm_num]; exact c6633
