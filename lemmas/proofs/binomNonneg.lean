Nat.zero_le _
