Nat.choose_succ_succ n k
