by
  have h : (m + 2) * (m + 1) = (m + 1) * m + 2 * (m + 1) := by ring
  rw [h, Nat.add_mul_div_left _ _ (by norm_num : 0 < 2)]
