by
  have h := Nat.choose_mul_succ_eq (k + e) k
  have e1 : k + e + 1 - k = e + 1 := by omega
  rw [e1] at h
  linarith
