Nat.choose_eq_zero_of_lt (by omega)
