Nat.choose_pos (by omega)
