Nat.choose_le_choose k (by omega)
