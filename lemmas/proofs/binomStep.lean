by
  have h := Nat.add_one_mul_choose_eq m j
  linarith
