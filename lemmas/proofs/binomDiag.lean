by
  induction d with
  | zero => simp
  | succ d ih =>
    have := Nat.choose_succ_succ (m + d) (j + d)
    calc Nat.choose m j ≤ Nat.choose (m + d) (j + d) := ih
      _ ≤ Nat.choose (m + d) (j + d) + Nat.choose (m + d) (j + d + 1) := Nat.le_add_right _ _
      _ = Nat.choose (m + (d + 1)) (j + (d + 1)) := by rw [← this]; rfl
