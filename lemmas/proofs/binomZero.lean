Nat.choose_zero_right n
