#!/bin/sh
# usage: seedconfirm.sh <worktree> <outdir> <pkgdir> [race]  — confirms: with patch suite passes & demo fails; without patch demo passes
wt=$1; out=$2; pkg=$3; race=$4
export GOFLAGS=-mod=mod GOPROXY=off GOSUMDB=off GOTOOLCHAIN=local
cd $wt || exit 2
git checkout -q -- . 2>/dev/null; rm -f */zz_contracts_verif.go */*/zz_contracts_verif.go $pkg/zz_demo_test.go
git apply $out/patch.diff || { echo "APPLY-FAIL"; exit 1; }
go build ./... || { echo "BUILD-FAIL"; git checkout -q -- .; exit 1; }
if go test -vet=off -count=1 ./... >/tmp/sc_suite.txt 2>&1; then s1=suite-pass; else s1=SUITE-FAIL; fi
cp $out/demo_test.go $pkg/zz_demo_test.go
rf=""; [ -n "$race" ] && rf="-race"
if go test $rf -vet=off -count=1 -timeout 300s ./$pkg/ >/tmp/sc_demo1.txt 2>&1; then d1=DEMO-PASSES-WITH-PATCH; else d1=demo-fails-with-patch; fi
git checkout -q -- . ; rm -f */zz_contracts_verif.go */*/zz_contracts_verif.go
if go test $rf -vet=off -count=1 -timeout 300s ./$pkg/ >/tmp/sc_demo2.txt 2>&1; then d2=demo-passes-without; else d2=DEMO-FAILS-WITHOUT; fi
rm -f $pkg/zz_demo_test.go
echo "$s1 $d1 $d2"
