#!/bin/sh
# Must-fail corpus: applies every stored seeded change (seeded/<id>-<k>/patch.diff) to /repo,
# runs the property's quick check and expects exit 1 with a VIOLATION line; reverts afterwards.
# Run after every engine or contract change (a seed that is no longer detected is a regression
# of the machinery).  usage: ./selftest.sh [Cxx ...]      (evidence/ is restored afterwards)
cd /verif || exit 2
if [ -n "$(git -C /repo status --porcelain --untracked-files=no)" ]; then echo "repo dirty"; exit 2; fi
sel="$*"
miss=0; total=0
for d in seeded/*/; do
  d=${d%/}
  prop=$(python3 -c "import json;print(json.load(open('$d/meta.json'))['property'])")
  if [ -n "$sel" ] && ! echo " $sel " | grep -q " $prop "; then continue; fi
  git -C /repo apply "$PWD/$d/patch.diff" 2>/dev/null || { echo "$d: patch does not apply (tree has moved on)"; continue; }
  ./check "$prop" quick > /tmp/selftest_out.txt 2>&1; rc=$?
  git -C /repo checkout -- .
  total=$((total+1))
  if [ $rc -eq 1 ] && grep -q "^VIOLATION property=$prop " /tmp/selftest_out.txt; then
    echo "$d: detected ($(grep -c '^VIOLATION' /tmp/selftest_out.txt) violation lines; first: $(grep -m1 '^VIOLATION' /tmp/selftest_out.txt | cut -c1-160))"
  else
    echo "$d: MISSED (exit=$rc)"; miss=$((miss+1))
  fi
done
git checkout -q -- evidence 2>/dev/null
echo "selftest: $total seeded changes, $miss missed"
[ $miss -eq 0 ]
